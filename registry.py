"""Scenario and property registry shared by ./check and tools/gen_manifest.py."""

# scenario -> TLA+ module, flags, TLC budgets (seconds) per tier
SCENARIOS = {
    "book1": dict(module="MC_book1", native=True, frozen=True, quick=120, thorough=1500),
}

# property -> scenarios per tier (model + replay), what the clauses are, what is assumed
PROPS = {
    "C01": dict(quick=["book1"], thorough=["book1"]),
    "C02": dict(quick=["book1"], thorough=["book1"]),
    "C03": dict(quick=["book1"], thorough=["book1"]),
    "C04": dict(quick=["book1"], thorough=["book1"]),
    "C06": dict(quick=["book1"], thorough=["book1"]),
    "C08": dict(quick=["book1"], thorough=["book1"]),
    "C09": dict(quick=["book1"], thorough=["book1"]),
    "C11": dict(quick=["book1"], thorough=["book1"]),
    "C16": dict(quick=["book1"], thorough=["book1"]),
    "C17": dict(quick=["book1"], thorough=["book1"]),
}

ALL_PROPS = ["C%02d" % i for i in range(1, 18)]

LEVEL_TEXT = (
    "Model checking with conformance binding: TLC explores each scenario of the explicit TLA+ specification "
    "(spec/Ats.tla) exhaustively and checks every clause of this property (spec/AtsProps.tla) on every state and "
    "transition; every transition TLC generates is then replayed on the real contract entry points and compared "
    "with the specification's outcome, and whatever the code does differently is judged by TLC (spec/AtsTrace.tla) "
    "against the property's clauses. The property is a statement over all histories of a sequential state machine, "
    "which is what exhaustive exploration of a closed finite request alphabet decides; the replay transfers the "
    "result to the implementation for every explored transition."
)
LEVEL_NOTE = (
    "Exhaustive only within each scenario's finite request alphabet and book bound (spec/MC_*.tla); amounts below "
    "2^31 (TLC integers); the chain is not modelled beyond executing emitted messages as written; marker and "
    "attribute modules are mocked per denomination/account; trusted base: TLC, the Rust harness's plumbing "
    "(projection/injection, checked by a round-trip assertion on every record), cosmwasm/provwasm mocks."
)
