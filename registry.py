"""Scenario and property registry shared by ./check and tools/gen_manifest.py."""

# scenario -> TLA+ module, flags, TLC budgets (seconds) per tier
SCENARIOS = {
    "book1": dict(module="MC_book1", native=True, frozen=True, quick=300, thorough=3600),
    "admit": dict(module="MC_admit", native=True, frozen=True, quick=300, thorough=3600),
    "auth": dict(module="MC_auth", native=True, frozen=True, quick=300, thorough=3600),
    "conv2": dict(module="MC_conv2", native=True, frozen=True, quick=300, thorough=3600),
    "cfg": dict(module="MC_cfg", native=True, frozen=True, quick=300, thorough=3600),
    "envchg": dict(module="MC_envchg", native=True, frozen=True, quick=300, thorough=3600, envsteps=True),
    "fee": dict(module="MC_fee", native=True, frozen=True, quick=300, thorough=3600),
    "feearith": dict(module="MC_feearith", native=True, frozen=True, quick=300, thorough=3600),
    "feebig": dict(module="MC_feebig", native=True, frozen=True, quick=300, thorough=3600),
    "frac": dict(module="MC_frac", native=True, frozen=True, quick=300, thorough=3600),
    "inst": dict(module="MC_inst", native=True, frozen=True, quick=300, thorough=3600),
    "mig": dict(module="MC_mig", native=True, frozen=False, quick=300, thorough=3600, extra={"Family": '"realistic"'}),
    "migarb": dict(module="MC_mig", native=False, frozen=False, quick=300, thorough=3600, extra={"Family": '"arbitrary"'}),
    "book2": dict(module="MC_book2", native=True, frozen=True, quick=300, thorough=3600),
    "instbig": dict(module="MC_instbig", kind="instbig", native=True, frozen=True, quick=60, thorough=120),
    "marker": dict(module="MC_marker", native=True, frozen=True, quick=300, thorough=3600),
}

# property -> scenarios per tier (model + replay), driver profiles (profile, histories quick, histories thorough, steps)
PROPS = {
    "C01": dict(quick=["book1", "fee", "frac", "marker", "mig", "envchg"],
                thorough=["book1", "book2", "fee", "feebig", "feearith", "frac", "marker", "mig", "cfg", "conv2", "envchg"],
                drive=[("mixed", 2, 25, 250), ("fee", 0, 15, 250), ("migrate", 0, 15, 250), ("conv", 0, 10, 250)]),
    "C02": dict(quick=["book1", "fee", "feearith", "auth", "marker", "mig"],
                thorough=["book1", "fee", "feearith", "feebig", "auth", "marker", "frac", "mig", "conv2"],
                drive=[("match", 2, 25, 250), ("fee", 0, 15, 250), ("conv", 0, 10, 250)]),
    "C03": dict(quick=["book1", "book2", "frac"], thorough=["book1", "book2", "frac", "fee", "cfg"],
                drive=[("match", 2, 30, 250), ("mixed", 0, 10, 250)]),
    "C04": dict(quick=["book1", "fee", "feebig", "marker", "mig", "auth"],
                thorough=["book1", "fee", "feebig", "marker", "auth", "frac", "mig", "conv2"],
                drive=[("reverse", 2, 25, 250), ("fee", 0, 15, 250), ("conv", 0, 10, 250)]),
    "C05": dict(quick=["auth", "book2"], thorough=["auth", "book2", "cfg", "mig"], drive=[("mixed", 2, 25, 250), ("modify", 0, 15, 250)]),
    "C06": dict(quick=["book1", "fee", "frac", "marker", "mig", "auth", "envchg"],
                thorough=["book1", "fee", "feebig", "frac", "marker", "mig", "auth", "envchg", "book2", "conv2"],
                drive=[("mixed", 2, 25, 250), ("reverse", 0, 15, 250), ("migrate", 0, 10, 250)]),
    "C07": dict(quick=["admit", "feearith", "book2", "auth", "envchg"], thorough=["admit", "feearith", "book2", "auth", "envchg", "book1", "fee"], drive=[("create", 2, 30, 250), ("fee", 0, 10, 250)]),
    "C08": dict(quick=["book1", "marker", "admit", "mig", "conv2", "auth"], thorough=["book1", "marker", "admit", "mig", "conv2", "auth", "frac", "envchg"], drive=[("conv", 2, 35, 250)]),
    "C09": dict(quick=["fee", "feebig", "feearith", "frac"], thorough=["fee", "feebig", "feearith", "book1", "frac", "mig"],
                drive=[("fee", 2, 30, 250), ("match", 0, 10, 250)]),
    "C10": dict(quick=["marker", "envchg", "conv2"], thorough=["marker", "envchg", "conv2", "admit"], drive=[("env", 3, 25, 250), ("mixed", 1, 15, 250), ("conv", 0, 15, 250)]),
    "C11": dict(quick=["book2", "book1", "frac", "admit"], thorough=["book2", "book1", "frac", "admit", "fee", "conv2"],
                drive=[("mixed", 2, 25, 250), ("match", 0, 15, 250)]),
    "C12": dict(quick=["cfg"], thorough=["cfg"], drive=[("modify", 2, 35, 250)]),
    "C13": dict(quick=["inst", "instbig", "admit", "frac"], thorough=["inst", "instbig", "admit", "frac"],
                drive=[("create", 1, 20, 150)]),
    "C14": dict(quick=["mig"], thorough=["mig", "migarb"], drive=[("migrate", 2, 35, 250)]),
    "C15": dict(quick=["mig", "migarb"], thorough=["mig", "migarb"], drive=[("migrate", 2, 35, 250)]),
    "C16": dict(quick=["book1", "book2", "mig", "inst", "admit"], thorough=["book1", "book2", "mig", "inst", "admit", "frac"], drive=[("mixed", 2, 25, 250), ("migrate", 0, 10, 250)]),
    "C17": dict(quick=["book1", "fee", "marker", "mig", "frac", "admit"],
                thorough=["book1", "fee", "feearith", "marker", "auth", "mig", "frac", "admit"],
                drive=[("mixed", 2, 25, 250), ("match", 0, 10, 250), ("reverse", 0, 10, 250)]),
}

ALL_PROPS = ["C%02d" % i for i in range(1, 18)]

LEVEL_TEXT = (
    "Model checking with conformance binding in both directions. (M) TLC explores each registered scenario of the explicit "
    "TLA+ specification (spec/Ats.tla) exhaustively and checks every clause of this property (spec/AtsProps.tla) on every "
    "reachable state and every transition. (A) Every transition TLC generates is replayed on the real contract entry points "
    "(state injected, request executed, outcome / messages / attributes / query result / complete projected storage compared "
    "with the specification's outcome); where the code ends up in a state the specification does not reach, divergence probes "
    "wind that state down. (B) Seeded random histories are run on the real contract and every recorded call and probe is "
    "judged by TLC (spec/AtsTrace.tla) against the same clauses and against Outcomes(). Whatever the code does differently is "
    "attributed to clauses by TLC; VIOLATION is printed iff a clause of this property is violated by something the real code did. "
    "The property quantifies over all histories of a sequential state machine; exhaustive exploration of closed finite request "
    "alphabets decides that for the model, and the replay of every transition transfers it to the implementation for "
    "everything explored."
)
LEVEL_NOTE = (
    "Exhaustive only within each scenario's finite request alphabet and book bound (spec/MC_*.tla); amounts below "
    "2^31 (TLC integers); the chain is not modelled beyond executing emitted messages as written; marker and "
    "attribute modules are mocked per denomination/account; trusted base: TLC, the Rust harness's plumbing "
    "(projection/injection, checked by a round-trip assertion on every record), cosmwasm/provwasm mocks."
)
