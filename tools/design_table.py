#!/usr/bin/env python3
"""Print the section-6 'as built' table of DESIGN.md from registry.py."""
import os, sys
sys.path.insert(0, os.path.join(os.path.dirname(__file__), ".."))
from registry import PROPS, ALL_PROPS
print("| Property | Scenarios, quick tier (M + A) | added in the thorough tier | Driver profiles (B): quick / thorough histories x steps |")
print("|---|---|---|---|")
for p in ALL_PROPS:
    d = PROPS[p]
    add = [s for s in d["thorough"] if s not in d["quick"]]
    drv = "; ".join("`%s` %d / %d x %d" % t for t in d["drive"])
    print("| %s | %s | %s | %s |" % (p, ", ".join(d["quick"]), ", ".join(add) or "-", drv))
