#!/usr/bin/env python3
"""Confirm a seeded change delivered by a sub-agent, then run the registered checks against it.

  tools/seed_verify.py <prop> <dir with patch.diff demo.diff README.md> <seed id> [--checks C01,C04]

Steps (all in a scratch worktree outside /repo and /verif, removed afterwards):
  1. patch.diff applies to /repo HEAD, the crate builds, the existing test suite passes with it;
  2. demo.diff alone: the demonstration passes on the unchanged tree;
  3. patch + demo: the demonstration fails.
Then apply patch.diff to /repo itself, run ./check <prop> (and any extra checks), undo it.
Writes /verif/seeded/<seed id>/{patch.diff,demo.diff,README.md,meta.json}.
"""
import json, os, shutil, subprocess, sys, time

def sh(cmd, cwd=None, timeout=3600):
    p = subprocess.run(cmd, cwd=cwd, shell=True, stdout=subprocess.PIPE, stderr=subprocess.STDOUT, text=True, timeout=timeout)
    return p.returncode, p.stdout

def main():
    prop, src, sid = sys.argv[1], sys.argv[2], sys.argv[3]
    checks = [prop]
    if "--checks" in sys.argv:
        checks = sys.argv[sys.argv.index("--checks") + 1].split(",")
    tier = "quick"
    if "--tier" in sys.argv:
        tier = sys.argv[sys.argv.index("--tier") + 1]
    skip_confirm = "--skip-confirm" in sys.argv
    wt = "/tmp/seedverify_%s" % sid
    meta = dict(seed_id=sid, property=prop, source=src, ran=[])
    patch = os.path.join(src, "patch.diff")
    demo = os.path.join(src, "demo.diff")
    if not skip_confirm:
        sh("git -C /repo worktree remove --force %s" % wt)
        rc, out = sh("git -C /repo worktree add -q --detach %s HEAD" % wt)
        assert rc == 0, out
        try:
            # reuse dependency builds
            sh("cp -r /repo/target %s/target" % wt)
            rc, out = sh("git apply %s" % patch, cwd=wt)
            meta["patch_applies"] = rc == 0
            assert rc == 0, "patch does not apply: " + out
            rc, out = sh("cargo test --workspace --no-fail-fast --offline 2>&1 | grep -E '^test result|FAILED|^error' ", cwd=wt)
            meta["suite_with_patch"] = out.strip().splitlines()
            ok_suite = "178 passed; 0 failed" in out and "error" not in out
            meta["suite_passes_with_patch"] = ok_suite
            # demo without patch
            sh("git checkout -- . && git clean -fdq -e target", cwd=wt)
            rc, out = sh("git apply %s" % demo, cwd=wt)
            assert rc == 0, "demo does not apply: " + out
            rc, out = sh("cargo test --workspace --no-fail-fast --offline 2>&1 | grep -E '^test result|FAILED|failed|^error' ", cwd=wt)
            meta["demo_without_patch"] = out.strip().splitlines()[-6:]
            demo_pass = "FAILED" not in out and "error" not in out
            meta["demo_passes_without_patch"] = demo_pass
            rc, out = sh("git apply %s" % patch, cwd=wt)
            assert rc == 0, "patch does not apply on top of demo: " + out
            rc, out = sh("cargo test --workspace --no-fail-fast --offline 2>&1 | grep -E '^test result|FAILED|failed|^error' ", cwd=wt)
            meta["demo_with_patch"] = out.strip().splitlines()[-8:]
            meta["demo_fails_with_patch"] = "FAILED" in out or "failed" in out
        finally:
            sh("git -C /repo worktree remove --force %s" % wt)
            shutil.rmtree(wt, ignore_errors=True)
        meta["confirmed"] = bool(meta.get("suite_passes_with_patch") and meta.get("demo_passes_without_patch") and meta.get("demo_fails_with_patch"))
        print("confirmed:", meta["confirmed"], {k: meta[k] for k in ("suite_passes_with_patch", "demo_passes_without_patch", "demo_fails_with_patch")})
    dst = "/verif/seeded/%s" % sid
    os.makedirs(dst, exist_ok=True)
    if "--confirm-only" in sys.argv:
        for f in ("patch.diff", "demo.diff", "README.md"):
            if os.path.exists(os.path.join(src, f)):
                shutil.copy(os.path.join(src, f), os.path.join(dst, f))
        json.dump(meta, open(os.path.join(dst, "meta.json"), "w"), indent=1)
        return
    # run the checks against /repo with the patch applied
    rc, out = sh("git -C /repo status --porcelain")
    assert out.strip() == "", "/repo is not clean: " + out
    rc, out = sh("git -C /repo apply %s" % patch)
    assert rc == 0, out
    try:
        for c in checks:
            t0 = time.time()
            rc, out = sh("./check %s --tier %s" % (c, tier), cwd="/verif")
            lines = [l for l in out.splitlines() if l.startswith(("VIOLATION", "KNOWN", "TOOL", "  clause"))]
            meta["ran"].append(dict(check=c, tier=tier, rc=rc, wall_s=round(time.time() - t0, 1), output=lines[:12]))
            print(c, "rc=%d" % rc, lines[:6])
    finally:
        sh("git -C /repo checkout -- .")
    # evidence files were rewritten by runs against the seeded tree: restore them
    sh("git -C /verif checkout -- evidence")
    for f in ("patch.diff", "demo.diff", "README.md"):
        if os.path.exists(os.path.join(src, f)):
            shutil.copy(os.path.join(src, f), os.path.join(dst, f))
    old = {}
    if os.path.exists(os.path.join(dst, "meta.json")):
        old = json.load(open(os.path.join(dst, "meta.json")))
    if skip_confirm:
        for k, v in old.items():
            if k not in ("ran",):
                meta.setdefault(k, v)
        meta["ran"] = old.get("ran", []) + meta["ran"]
    meta["detected_by"] = sorted({r["check"] for r in meta["ran"] if r["rc"] == 1})
    json.dump(meta, open(os.path.join(dst, "meta.json"), "w"), indent=1)

if __name__ == "__main__":
    main()
