#!/usr/bin/env python3
"""Write /verif/MANIFEST.json from registry.py."""
import json, os, sys
ROOT = os.path.dirname(os.path.dirname(os.path.abspath(__file__)))
sys.path.insert(0, ROOT)
from registry import PROPS, ALL_PROPS, LEVEL_TEXT, LEVEL_NOTE

checks = []
for p in ALL_PROPS:
    if p not in PROPS:
        continue
    checks.append(dict(
        property_id=p,
        quick_cmd="./check %s --tier quick" % p,
        thorough_cmd="./check %s --tier thorough" % p,
        evidence_file="/verif/evidence/%s.json" % p,
        replay_cmd_template="./check replay {path}",
        engine="tla-conformance",
        level_claimed=dict(category="model_checking", text=LEVEL_TEXT, design_ref="DESIGN.md sections 3-6"),
        level_note=LEVEL_NOTE,
        technique="TLC model checking of an explicit TLA+ spec + exhaustive transition replay on the implementation + TLC trace judging of observed calls",
    ))
m = dict(
    version=1,
    setup_cmd="./check setup",
    hooks=dict(guard="ats_verif (unused: no hook was needed)", enable="none - the harness uses only public items of the crate (path dependency on /repo)",
               baseline_off_cmd="cd /repo && cargo test --workspace --no-fail-fast --offline", source_commits=[], add_only=True),
    engines=[dict(name="tla-conformance", path="/verif/check", serves_properties=[c["property_id"] for c in checks],
                  kind_free_text="explicit TLA+ specification (spec/*.tla) checked by TLC; bound to the code by replaying every TLC-generated transition in a Rust harness (harness/) and by judging recorded implementation calls with a TLC trace specification")],
    checks=checks,
    notes="See DESIGN.md. Fixes of genuine defects are recorded in known_findings.json.",
    not_applicable=[dict(property_id=p, reason="check under construction: the scenario that decides it is not registered yet (see DESIGN.md section 11)")
                    for p in ALL_PROPS if p not in PROPS],
)
json.dump(m, open(os.path.join(ROOT, "MANIFEST.json"), "w"), indent=1)
print("wrote MANIFEST.json with %d checks, %d not_applicable" % (len(checks), len(m["not_applicable"])))
