#!/bin/bash
# ./check all against /repo with each behaviour-preserving change of /verif/benign/<id>/patch.diff applied
cd /verif
mkdir -p work/benign
for kb in "$@"; do
  p=/verif/benign/$kb/patch.diff
  git -C /repo apply $p || { echo "$kb APPLY-FAILED" >> work/benign/summary4.txt; continue; }
  s=$(date +%s)
  ./check all > work/benign/$kb.json 2> work/benign/$kb.err; echo "$kb rc=$? $(( $(date +%s)-s ))s" >> work/benign/summary4.txt
  cp work/benign/$kb.json benign/$kb/check_all_result.json
  git -C /repo checkout -- . ; git -C /repo clean -fdq -e target
done
git -C /verif checkout -- evidence 2>/dev/null
echo ALLDONE >> work/benign/summary4.txt
