#!/bin/bash
cd /verif
for kb in "$@"; do
  k=${kb%-*}; b=${kb#*-}
  p=/tmp/seedout/$k/$b/patch.diff
  git -C /repo apply $p || { echo "$kb APPLY-FAILED" >> work/benign/summary3.txt; continue; }
  ./check all > work/benign/$kb.json 2> work/benign/$kb.err; echo "$kb rc=$?" >> work/benign/summary3.txt
  git -C /repo checkout -- . ; git -C /repo clean -fdq -e target
done
echo ALLDONE >> work/benign/summary3.txt
