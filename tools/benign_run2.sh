#!/bin/bash
cd /verif
mkdir -p work/benign
for k in "$@"; do for b in b1 b2 b3; do
  p=/tmp/seedout/$k/$b/patch.diff
  [ -f $p ] || continue
  git -C /repo apply $p || { echo "$k-$b APPLY-FAILED" >> work/benign/summary2.txt; continue; }
  ./check all > work/benign/$k-$b.json 2> work/benign/$k-$b.err; echo "$k-$b rc=$?" >> work/benign/summary2.txt
  git -C /repo checkout -- . ; git -C /repo clean -fdq -e target
done; done
echo ALLDONE >> work/benign/summary2.txt
