#!/usr/bin/env python3
"""Soak the code->spec direction on the current tree: many seeds x profiles, report every judge flag."""
import json, os, subprocess, sys, collections
ROOT = os.path.dirname(os.path.dirname(os.path.abspath(__file__)))
sys.path.insert(0, ROOT)
src = open(os.path.join(ROOT, "check")).read().split("def main():")[0].replace("os.path.dirname(os.path.abspath(__file__))", repr(ROOT))
exec(src)
seeds = [int(x) for x in sys.argv[1].split(",")] if len(sys.argv) > 1 else [11, 12, 13]
profiles = sys.argv[2].split(",") if len(sys.argv) > 2 else ["mixed", "match", "reverse", "create", "fee", "conv", "modify", "migrate"]
nh = int(sys.argv[3]) if len(sys.argv) > 3 else 10
build_harness()
wd = os.path.join(WORK, "soak-%d" % os.getpid())
os.makedirs(wd, exist_ok=True)
tot = collections.Counter()
for seed in seeds:
    for p in profiles:
        tr = os.path.join(wd, "t.ndjson")
        subprocess.run([HARNESS, "drive", "--seed", str(seed), "--profile", p, "--steps", "250", "--histories", str(nh),
                        "--out", tr, "--stats", os.path.join(wd, "s.json")], check=True)
        v, n = judge(tr, wd, "soak")
        tot["records"] += n
        lines = open(tr).read().splitlines() if v else []
        for (line, seq, srcc, clauses) in v:
            r = json.loads(lines[line - 1])
            key = (p, r["req"]["kind"], r["probe"], tuple(clauses))
            if tot[key] == 0:
                keep = os.path.join(WORK, "soak_flag_%s_%d_%d.json" % (p, seed, line))
                open(keep, "w").write(lines[line - 1])
                print("FLAG", seed, key, "->", keep, flush=True)
            tot[key] += 1
        print("seed", seed, "profile", p, "records", n, "flags", len(v), flush=True)
import shutil
shutil.rmtree(wd, ignore_errors=True)
print({str(k): v for k, v in tot.items()})
