#!/usr/bin/env python3
"""Print the markdown table of seeded changes and what detects them (from seeded/*/meta.json)."""
import json, os, glob
ROOT = os.path.dirname(os.path.dirname(os.path.abspath(__file__)))
rows = []
for d in sorted(glob.glob(os.path.join(ROOT, "seeded", "*"))):
    mp = os.path.join(d, "meta.json")
    if not os.path.exists(mp):
        continue
    m = json.load(open(mp))
    what = m.get("what", "")
    clauses = sorted({l.split()[1] for r in m.get("ran", []) for l in r.get("output", []) if l.strip().startswith("clause")})
    det = ", ".join(m.get("detected_by", [])) or "NOT DETECTED"
    rows.append("| %s | %s | %s | %s | %s |" % (m["seed_id"], m["property"], what, det, ", ".join(clauses)))
print("| Seed | Breaks | Change | Detected by check(s) | Clauses reported |")
print("|---|---|---|---|---|")
print("\n".join(rows))
