#!/usr/bin/env python3
"""Print the 'measured' table of DESIGN.md (12.2 / Appendix D) from the evidence files of the last run.

  tools/measured_table.py [evidence dir]    (default: /verif/evidence)
"""
import glob, json, os, sys
d = sys.argv[1] if len(sys.argv) > 1 else os.path.join(os.path.dirname(__file__), "..", "evidence")
rows, props = {}, []
for f in sorted(glob.glob(os.path.join(d, "C*.json"))):
    e = json.load(open(f))
    props.append((e["property_id"], e["tier"], e["wall_s"], e["coverage"]["states"], e["coverage"]["transitions"],
                  e["coverage"].get("driven_calls_judged", 0) + e["coverage"].get("driven_probes_judged", 0)))
    for s in e["coverage"].get("scenarios", []):
        rows[s["scenario"]] = s
print("| Scenario | distinct states | transitions (all replayed) | wall |")
print("|---|---|---|---|")
for k in sorted(rows):
    s = rows[k]
    print("| %s | %s | %s | %.0f s |" % (k, format(s["states"], ",").replace(",", " "), format(s["transitions"], ",").replace(",", " "), s["wall_s"]))
print()
print("| Property | tier | states | transitions | driven records judged | wall |")
print("|---|---|---|---|---|---|")
for p in props:
    print("| %s | %s | %s | %s | %s | %.0f s |" % (p[0], p[1], format(p[3], ",").replace(",", " "), format(p[4], ",").replace(",", " "),
                                                  format(p[5], ",").replace(",", " "), p[2]))
