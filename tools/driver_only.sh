#!/bin/bash
# How much does the code->spec direction (driver + judge) detect on its own?  For each seeded change:
# apply, rebuild, run 8 profiles x 3 histories, list the clauses flagged.
cd /verif
mkdir -p work/drvonly
for sid in "$@"; do
  p=/verif/seeded/$sid/patch.diff
  git -C /repo apply $p || { echo "$sid APPLY-FAILED"; continue; }
  python3 tools/soak.py 7 mixed,match,reverse,create,fee,conv,modify,migrate 3 > work/drvonly/$sid.out 2>&1
  git -C /repo checkout -- . ; git -C /repo clean -fdq -e target
  echo "$sid: $(tail -1 work/drvonly/$sid.out | cut -c1-400)"
done
