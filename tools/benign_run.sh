#!/bin/bash
# Run the whole machinery (./check all) against /repo with each behaviour-preserving change applied.
cd /verif
mkdir -p work/benign
echo "== clean" > work/benign/summary.txt
/usr/bin/time -f "clean %es" ./check all > work/benign/clean.json 2> work/benign/clean.err; echo "clean rc=$?" >> work/benign/summary.txt
for k in B1 B2 B3 B4; do for b in b1 b2 b3; do
  p=/tmp/seedout/$k/$b/patch.diff
  [ -f $p ] || continue
  git -C /repo apply $p || { echo "$k-$b APPLY-FAILED" >> work/benign/summary.txt; continue; }
  ./check all > work/benign/$k-$b.json 2> work/benign/$k-$b.err; echo "$k-$b rc=$?" >> work/benign/summary.txt
  git -C /repo checkout -- . ; git -C /repo clean -fdq -e target
done; done
echo ALLDONE >> work/benign/summary.txt
