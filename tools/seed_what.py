#!/usr/bin/env python3
"""One-line descriptions of the seeded changes (from the sub-agents' reports), merged into seeded/*/meta.json."""
import json, os
ROOT = os.path.dirname(os.path.dirname(os.path.abspath(__file__)))
WHAT = {
 "C01-m1": ("bid fee of a fill computed as a rounded per-fill share instead of 'what the remaining fee must drop to': shares over several fills do not sum to the escrowed fee", "fee-bearing bid filled in several executions with fractional fee shares"),
 "C01-m2": ("integrality check of size x bid price dropped at an improved price (to_u128 truncates): refund truncated, 1 quote stranded when the bid closes", "fractional bid price, execution at the lower ask price with an off-lot size"),
 "C01-m3": ("BidFeeAccountMissing refusal dropped: match accepted with the bid fee booked as spent but paid to nobody", "migration clears the bid fee while a fee-bearing bid is open, then a match"),
 "C01-m4": ("migration scan of old-format bids stops at the first current-format record (map_while): later old-format bids never converted, their escrow unreachable", "mixed-format book where a current-format key sorts before an old-format one"),
 "C02-m1": ("fill fee subtracted from the total fee instead of the remaining fee: every later fill also pays everything paid before", "second operation on a partly filled fee-bearing bid"),
 "C02-m2": ("ask fee rounded half-to-even", "rate x gross exactly an even integer + 0.5"),
 "C02-m3": ("ask fee rate quantised to 4 decimals before use", "rate with more than four decimals (0.00125) and gross >= 400"),
 "C02-m4": ("bid fee silently skipped (and over-refunded) when the bid-fee configuration is gone", "migration clears the bid fee under an open fee-bearing bid, then a match"),
 "C03-m1": ("integrality check of size x bid price dropped at an improved price", "fractional bid price, improved-price execution with size x ask price whole but size x bid price not"),
 "C03-m2": ("any execution price inside the spread accepted", "ask price strictly below bid price, price strictly between"),
 "C03-m3": ("de-duplication of the new executor list checks the stored list: an executor listed before and after a ModifyContract is dropped", "ModifyContract whose executor list overlaps the current one"),
 "C03-m4": ("whole-quote check applied after rounding the product to 2 decimals", "price precision 3, price using the third decimal, off-lot execution size"),
 "C04-m1": ("fee kept on a partial bid reject pro-rated from the remaining fee instead of the original fee", "partial reject of an already partly filled / rejected fee-bearing bid"),
 "C04-m2": ("lot-multiple check of a partial ask reject applied to the remainder instead of the requested size", "ask remainder off the lot grid after an off-lot fill"),
 "C04-m3": ("fee part of a bid cancel / expire / reject computed only while a bid-fee configuration exists", "migration clears the bid fee under an open fee-bearing bid, then cancel / reject"),
 "C04-m4": ("V2->V3 conversion drops the fee of Reject events: later cancel pays out the fee again", "old-format bid partly rejected with a fee share, migrate, then cancel / reject"),
 "C05-m1": ("merged guard lets any executor through the owner-only CancelBid", "CancelBid sent by an executor who is not the owner"),
 "C05-m2": ("empty approver list treated as 'no restriction'", "approver list empty (instantiate or migrate with an empty list)"),
 "C06-m1": ("lot-multiple check applied to the full-size default of bid cancel / expire again", "fill with an off-lot size, then CancelBid / ExpireBid"),
 "C06-m2": ("approver refund on CancelAsk uses the marker type of the ask's convertible denomination", "approved convertible ask whose two denominations have different marker types"),
 "C07-m1": ("bid fee at admission rounded half-to-even", "rate x total exactly an even integer + 0.5"),
 "C07-m2": ("restricted-marker lookup in create_ask uses the contract's base denomination instead of the ask's", "convertible ask whose denomination has another marker type than the base"),
 "C07-m3": ("bid fee rounded twice (to 2 decimals, then to 0)", "rate 0.333 and totals such as 503, 506, 512 (fraction in [0.495, 0.5))"),
 "C07-m4": ("bid fee rate truncated to whole basis points", "rate with more than four decimals (0.00125), total >= 400"),
 "C08-m1": ("approver amount synchronised before the size is reduced in reverse_ask (stale by one step)", "approve, partial reject, cancel"),
 "C08-m2": ("approval size guard weakened from != to >: under-funded approvals accepted", "ApproveAsk with size and funds below the ask's size"),
 "C09-m1": ("fee kept on a partial bid reject scaled from the remaining fee", "partial reject after an earlier fill / reject"),
 "C09-m2": ("ask fee rounded half-to-even", "rate x gross exactly an even integer + 0.5"),
 "C09-m3": ("pro-rata quote ratio kept to 4 decimals", "fee x quote >= 10^4 (quotes in the hundreds); off by one unit on rare non-tie values"),
 "C09-m4": ("V2->V3 conversion drops the fee of Reject events", "old-format fee-bearing bid partly rejected before migration"),
 "C10-m1": ("price-improvement quote refund uses the base denomination's marker flag", "mixed marker types between base and quote, match below the bid price"),
 "C10-m2": ("positivity guard moved from the returned fee to the escrowed fee: zero-amount fee return emitted", "returned fee share rounds to zero on a bid with a non-zero fee"),
 "C11-m1": ("ask classified convertible by membership in the convertible list instead of base != contract base", "contract base denomination also listed as convertible"),
 "C11-m2": ("NonIntegerTotal guard on the execution gross dropped (truncation)", "fractional price, off-lot execution size"),
 "C11-m3": ("bid removed when its remainder is below the size increment instead of zero", "increment > 1, off-grid fill, then a partial reject leaving 0 < remainder < increment"),
 "C11-m4": ("Fill event at an improved price booked with net proceeds (gross minus ask fee)", "ask fee >= 1 on a price-improved partial fill"),
 "C12-m1": ("bid-side fee-rate freeze compares with the ask fee configuration", "open bid, differing ask / bid rates, new bid rate equal to the ask rate"),
 "C12-m2": ("empty fee account alone read as 'clear the fee'", "ModifyContract with a numerically equal rate and an empty account under open orders"),
 "C13-m1": ("increment rule weakened from 'multiple of 10^p' to 'at least 10^p'", "increment >= 10^p that is not a multiple (150 at precision 2)"),
 "C13-m2": ("fee pair with one empty half treated as 'no fee'", "rate with empty account, or account with empty rate"),
 "C14-m1": ("empty fee pair in a migrate message treated as 'no change'", "configured fee and a migrate message with the clearing pair"),
 "C14-m2": ("version stamped before the bid conversion, which then sees the new version and skips", "stored version in the conversion window with old-format bids"),
 "C15-m1": ("fee of Reject events dropped from the conversion sum", "old-format bid with a fee-bearing reject event"),
 "C15-m2": ("migration scan stops at the first current-format bid (map_while)", "current-format key sorting before an old-format one"),
 "C16-m1": ("queries fall back to the canonical spelling of the id", "query with another spelling of an id that is on the book"),
 "C16-m2": ("a bid completed by a later (smaller) match is not removed", "bid exhausted by a match smaller than its original size"),
 "C17-m1": ("bid fee reported in the attributes but not paid when no fee account exists", "migration clears the bid fee, then a match with a fee due"),
 "C17-m2": ("order_open computed from the bid's original size", "sized reject of exactly the remainder after an earlier partial fill / reject"),
 "C17-m3": ("bid fee reported but never paid after a fee migration (None => ())", "migration clears the bid fee mid-life, then a match"),
 "C17-m4": ("fractional execution total truncated while untruncated price and size are reported", "precision 2 price, off-grid fill with fractional total"),
}
for sid, (what, needs) in WHAT.items():
    p = os.path.join(ROOT, "seeded", sid, "meta.json")
    if os.path.exists(p):
        m = json.load(open(p))
        m["what"] = what
        m["needs"] = needs
        m["breaks_property"] = m.get("property")
        json.dump(m, open(p, "w"), indent=1)
print("ok")
