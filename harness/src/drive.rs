//! code -> spec: seeded random histories on the real contract (under construction)
pub fn main(_args: &[String]) -> i32 {
    eprintln!("drive: not built yet");
    2
}
