//! code -> spec: seeded random histories on the real contract.
//!
//! The driver instantiates the contract with a random coherent configuration and a random
//! marker / attribute table, then issues random requests of every kind (biased towards
//! validity by looking at the book it projects from storage), with role overlaps, odd
//! spellings, corrupted fields, configuration changes, time-travel migrations, and after
//! every step probes on a copy of the state (owner cancel and executor expire of every open
//! order, queries for open / closed / unused / legacy / malformed ids).  Every call is
//! recorded as one ndjson line and judged by TLC (spec/AtsTrace.tla).  The driver contains no
//! expectation about outcomes; it only keeps the cumulative ledger of real fund movements.

use crate::arg;
use crate::model::*;
use crate::render::{RSCALE, SCALE};
use crate::world::World;
use rand::rngs::StdRng;
use rand::seq::SliceRandom;
use rand::{Rng, SeedableRng};
use std::collections::BTreeMap;
use std::io::Write;

const ASK_IDS: [&str; 12] = ["a1", "a2", "a3", "a4", "a5", "a6", "a7", "a8", "s1", "s2", "s3", "s4"];
const BID_IDS: [&str; 12] = ["b1", "b2", "b3", "b4", "b5", "b6", "b7", "b8", "s1", "s2", "s3", "s4"];
const SELLERS: [&str; 4] = ["seller1", "seller2", "multi1", "multi2"];
const BUYERS: [&str; 4] = ["buyer1", "buyer2", "multi1", "multi2"];
const EVERYONE: [&str; 16] = [
    "seller1", "seller2", "buyer1", "buyer2", "appr1", "appr2", "exec1", "exec2", "askfee1", "askfee2", "bidfee1",
    "bidfee2", "stranger", "multi1", "multi2", "admin",
];
const GOOD_SP: [&str; 5] = ["plain", "t0", "lead0", "plus", "dot"];
const MAX_QUOTE: i64 = 20_000;

#[derive(Clone, Copy, PartialEq)]
pub enum Profile {
    Mixed,
    Match,
    Reverse,
    Create,
    Fee,
    Conv,
    Modify,
    Migrate,
    /// frequent changes of the chain environment (marker types, attributes) between requests
    Env,
}

fn profile_of(s: &str) -> Profile {
    match s {
        "match" => Profile::Match,
        "reverse" => Profile::Reverse,
        "create" => Profile::Create,
        "fee" => Profile::Fee,
        "conv" => Profile::Conv,
        "modify" => Profile::Modify,
        "migrate" => Profile::Migrate,
        "env" => Profile::Env,
        _ => Profile::Mixed,
    }
}

struct Driver {
    rng: StdRng,
    w: World,
    env: EnvT,
    profile: Profile,
    seq: u64,
    held: BTreeMap<String, i64>,
    /// per open bid key: the events an old-format store would have logged for it
    logs: BTreeMap<String, Vec<EventT>>,
    out: std::io::BufWriter<std::fs::File>,
    src: String,
    nrec: u64,
    nprobe: u64,
    by_kind: BTreeMap<String, (u64, u64)>,
    samples: Vec<serde_json::Value>,
    /// an ask / a bid the driver keeps coming back to with small partial operations, so that single
    /// orders live through long sequences of fills, refunds and partial rejects
    focus_ask: Option<String>,
    focus_bid: Option<String>,
    /// the previous request of the history: now and then it is issued again verbatim (a client retry)
    last_req: Option<ReqT>,
}

fn dec(n: i64, sp: &str) -> DecT {
    DecT { n, sp: sp.to_string() }
}

fn some<T>(v: T) -> Opt<T> {
    Opt { some: true, v }
}

fn none_seq() -> Opt<Vec<String>> {
    Opt { some: false, v: vec![] }
}

fn none_str() -> Opt<String> {
    Opt { some: false, v: String::new() }
}

fn none_dec() -> Opt<DecT> {
    Opt { some: false, v: dec(0, "plain") }
}

fn half_up(n: i64, d: i64) -> i64 {
    (2 * n + d) / (2 * d)
}

impl Driver {
    fn pick<'a>(&mut self, xs: &[&'a str]) -> &'a str {
        xs[self.rng.gen_range(0..xs.len())]
    }

    fn chance(&mut self, p: f64) -> bool {
        self.rng.gen_bool(p)
    }

    fn spelling(&mut self, n: i64) -> DecT {
        if self.chance(0.7) {
            dec(n, "plain")
        } else {
            let sp = GOOD_SP[self.rng.gen_range(0..GOOD_SP.len())];
            dec(n, sp)
        }
    }

    fn restricted(&self, d: &str) -> bool {
        self.env.marker.get(d).map(|k| k == "restricted").unwrap_or(false)
    }

    fn funds_for(&mut self, d: &str, amt: i64, corrupt: f64) -> Vec<CoinT> {
        let exact = if self.restricted(d) { vec![] } else { vec![CoinT { denom: d.to_string(), amt }] };
        if !self.chance(corrupt) {
            return exact;
        }
        match self.rng.gen_range(0..5) {
            0 => vec![CoinT { denom: d.to_string(), amt: amt + 1 }],
            1 => vec![CoinT { denom: d.to_string(), amt: (amt - 1).max(1) }],
            2 => vec![],
            3 => vec![CoinT { denom: d.to_string(), amt }, CoinT { denom: "q2".into(), amt: 1 }],
            _ => vec![CoinT { denom: "q2".into(), amt }],
        }
    }

    // ------------------------------------------------------------------ recording
    fn record(&mut self, req: &ReqT, probe: bool, reset: bool, pre: StateT) -> (RespT, StateT) {
        self.w.set_env(&self.env);
        let snap = if probe { Some(self.w.snapshot()) } else { None };
        let resp = self.w.call(req);
        let post = self.w.project();
        if let Some(s) = snap {
            self.w.restore(&s);
        }
        if !probe && resp.ok {
            // cumulative ledger of what the contract holds, from the real fund movements
            let (sender, funds) = sender_funds(req);
            for c in &funds {
                *self.held.entry(c.denom.clone()).or_insert(0) += c.amt;
                let _ = &sender;
            }
            for m in &resp.msgs {
                if m.to == "contract" {
                    *self.held.entry(m.denom.clone()).or_insert(0) += m.amt;
                }
                if m.from == "contract" {
                    *self.held.entry(m.denom.clone()).or_insert(0) -= m.amt;
                }
            }
            self.track_events(req, &resp, &pre, &post);
        }
        let e = self.by_kind.entry(req.kind().to_string()).or_insert((0, 0));
        if resp.ok {
            e.0 += 1;
        } else {
            e.1 += 1;
        }
        let obs = ObsT {
            src: self.src.clone(),
            seq: self.seq,
            reset,
            chained: true,
            native: true,
            probe,
            pre,
            env: self.env.clone(),
            req: req.clone(),
            resp: resp.clone(),
            post: post.clone(),
            dontcare: vec![],
            ledger: if probe { None } else { Some(self.held.clone()) },
        };
        self.seq += 1;
        if probe {
            self.nprobe += 1;
        } else {
            self.nrec += 1;
        }
        if self.samples.len() < 3 && !probe && resp.ok && self.seq % 37 == 5 {
            self.samples.push(serde_json::json!({"req": req, "ok": resp.ok, "msgs": resp.msgs, "attrs": resp.attrs}));
        }
        writeln!(self.out, "{}", serde_json::to_string(&obs).unwrap()).unwrap();
        (resp, post)
    }

    /// what an old-format store would have logged for each bid (used by time-travel migrations)
    fn track_events(&mut self, req: &ReqT, resp: &RespT, pre: &StateT, post: &StateT) {
        let key = match req {
            ReqT::ExecuteMatch { bid_id, .. } => bid_id.clone(),
            ReqT::RejectBid { id, .. } | ReqT::CancelBid { id, .. } | ReqT::ExpireBid { id, .. } => id.clone(),
            ReqT::CreateBid { id, .. } => {
                self.logs.insert(id.clone(), vec![]);
                return;
            }
            _ => return,
        };
        let b0 = match pre.bids.get(&key) {
            Some(b) => b.clone(),
            None => return,
        };
        let b1 = match post.bids.get(&key) {
            Some(b) => b.clone(),
            None => {
                self.logs.remove(&key);
                return;
            }
        };
        let (dab, daq, daf) = (b1.ab - b0.ab, b1.aq - b0.aq, b1.af - b0.af);
        let fee = |a: i64| FeeT { some: a > 0, amt: a, denom: String::new() };
        let log = self.logs.entry(key).or_default();
        if let ReqT::ExecuteMatch { price, size, .. } = req {
            let g = price.n * size / SCALE;
            let actual = resp.attrs.get("bid_fee").and_then(|v| v.as_i64()).unwrap_or(0);
            log.push(EventT { kind: "fill".into(), base: *size, quote: g, fee: fee(actual) });
            if daq - g != 0 || daf - actual != 0 {
                log.push(EventT { kind: "refund".into(), base: 0, quote: daq - g, fee: fee(daf - actual) });
            }
        } else {
            log.push(EventT { kind: "reject".into(), base: dab, quote: daq, fee: fee(daf) });
        }
    }

    // ------------------------------------------------------------------ probes
    fn probes(&mut self, st: &StateT, closed: &[String]) {
        // exits: owner cancel and executor expire of every open order, on a copy of the state
        let execs = st.cfg.executors.clone();
        for (k, a) in st.asks.clone() {
            let r = ReqT::CancelAsk { sender: a.owner.clone(), funds: vec![], id: k.clone(), size: -1 };
            self.record(&r, true, false, st.clone());
            if let Some(e) = execs.first() {
                let r = ReqT::ExpireAsk { sender: e.clone(), funds: vec![], id: k.clone(), size: -1 };
                self.record(&r, true, false, st.clone());
            }
        }
        for (k, b) in st.bids.clone() {
            let r = ReqT::CancelBid { sender: b.owner.clone(), funds: vec![], id: k.clone(), size: -1 };
            self.record(&r, true, false, st.clone());
            if let Some(e) = execs.last() {
                let r = ReqT::ExpireBid { sender: e.clone(), funds: vec![], id: k.clone(), size: -1 };
                self.record(&r, true, false, st.clone());
            }
        }
        // queries: an open id, a closed one, a never used one, legacy and malformed forms
        let mut ids: Vec<String> = vec![];
        if let Some(k) = st.asks.keys().next() {
            ids.push(k.clone());
            ids.push(format!("{}L", k));
        }
        if let Some(k) = st.bids.keys().next() {
            ids.push(k.clone());
            ids.push(format!("{}U", k));
        }
        if let Some(c) = closed.last() {
            ids.push(c.clone());
        }
        ids.push("a8".into());
        ids.push("a1T".into());
        let which = self.rng.gen_range(0..ids.len());
        let id = ids[which].clone();
        for kind in 0..2 {
            let r = if kind == 0 {
                ReqT::QueryAsk { sender: "anyone".into(), funds: vec![], id: id.clone() }
            } else {
                ReqT::QueryBid { sender: "anyone".into(), funds: vec![], id: id.clone() }
            };
            self.record(&r, true, false, st.clone());
        }
        if self.chance(0.2) {
            let r = ReqT::QueryCfg { sender: "anyone".into(), funds: vec![], id: "".into() };
            self.record(&r, true, false, st.clone());
            let r = ReqT::QueryVer { sender: "anyone".into(), funds: vec![], id: "".into() };
            self.record(&r, true, false, st.clone());
        }
    }

    // ------------------------------------------------------------------ request generators
    fn gen_instantiate(&mut self) -> ReqT {
        let prec = self.rng.gen_range(0..=3i64);
        let mult = [1i64, 1, 2, 5][self.rng.gen_range(0..4)];
        let inc = 10i64.pow(prec as u32) * mult;
        let fee_profile = self.profile == Profile::Fee;
        let rates = [50_000i64, 100_000, 250_000, 300_000, 333_300, 500_000, 12_500, 1_000_000, 100, 1_250, 333_000, 5_000, 125];
        let mut pair = |d: &mut Driver, accts: &[&str], p: f64| -> (Opt<DecT>, Opt<String>) {
            if d.chance(p) {
                let r = rates[d.rng.gen_range(0..rates.len())];
                let sp = d.spelling(r);
                (some(sp), some(d.pick(accts).to_string()))
            } else if d.chance(0.2) {
                (some(dec(0, "bad_empty")), some(String::new()))
            } else {
                (none_dec(), none_str())
            }
        };
        let (ar, aa) = pair(self, &["askfee1", "askfee2", "multi1", "seller1"], if fee_profile { 0.8 } else { 0.5 });
        let (br, ba) = pair(self, &["bidfee1", "bidfee2", "multi2", "buyer1"], if fee_profile { 0.95 } else { 0.6 });
        let mut approvers = vec!["appr1".to_string()];
        if self.chance(0.5) {
            approvers.push(self.pick(&["appr2", "multi1", "seller1"]).to_string());
        }
        let mut executors = vec!["exec1".to_string()];
        if self.chance(0.5) {
            executors.push(self.pick(&["exec2", "multi2", "multi1"]).to_string());
        }
        let attrs = |d: &mut Driver| if d.chance(0.3) { vec!["kyc".to_string()] } else { vec![] };
        let askattrs = attrs(self);
        let bidattrs = attrs(self);
        ReqT::Instantiate {
            sender: "admin".into(),
            funds: vec![],
            msg: InstMsgT {
                name: "ats".into(),
                base: "base".into(),
                convs: if self.chance(0.15) {
                    vec!["cv1".into(), "base".into(), "cv2".into()]
                } else {
                    vec!["cv1".into(), "cv2".into()]
                },
                quotes: vec!["q1".into(), "q2".into()],
                approvers,
                executors,
                askfee_rate: ar,
                askfee_acct: aa,
                bidfee_rate: br,
                bidfee_acct: ba,
                askattrs,
                bidattrs,
                prec,
                inc,
            },
        }
    }

    fn gen_env(&mut self) -> EnvT {
        let mut marker = BTreeMap::new();
        for d in ["base", "cv1", "cv2", "q1", "q2"] {
            let k = match self.rng.gen_range(0..10) {
                0..=2 => "restricted",
                3..=7 => "coin",
                _ => "none",
            };
            marker.insert(d.to_string(), k.to_string());
        }
        let mut attrs = BTreeMap::new();
        for a in EVERYONE {
            let mut v = vec![];
            if self.chance(0.85) {
                v.push("kyc".to_string());
            }
            if self.chance(0.3) {
                v.push("acc".to_string());
            }
            attrs.insert(a.to_string(), v);
        }
        EnvT { marker, attrs }
    }

    fn price(&mut self, cfg: &CfgT) -> DecT {
        // a multiple of 10^-prec between about 0.5 and 20, occasionally one decimal too many
        let unit = 10i64.pow((4 - cfg.prec.min(4)) as u32);
        // keep price * (one lot) within the range the judge's 32-bit arithmetic can follow
        let cap = (MAX_QUOTE * SCALE / cfg.inc.max(1)).clamp(unit, 20 * SCALE);
        let k = self.rng.gen_range(1..=(cap / unit).max(1));
        let mut n = (k * unit).max(unit);
        if self.chance(0.03) && unit >= 10 {
            n += unit / 10;
        }
        if self.chance(0.02) {
            return dec(if self.chance(0.5) { 0 } else { -n }, "plain");
        }
        if self.chance(0.02) {
            return dec(0, ["bad_word", "bad_empty"][self.rng.gen_range(0..2)]);
        }
        self.spelling(n)
    }

    fn size(&mut self, cfg: &CfgT, price_n: i64) -> i64 {
        let inc = cfg.inc.max(1);
        let maxk = (MAX_QUOTE * SCALE / price_n.max(1) / inc).clamp(1, 12);
        let mut s = inc * self.rng.gen_range(1..=maxk);
        if self.chance(0.04) {
            s += 1;
        }
        s
    }

    fn gen_create_ask(&mut self, st: &StateT) -> ReqT {
        let cfg = &st.cfg;
        let conv = self.profile == Profile::Conv;
        let base = if self.chance(if conv { 0.8 } else { 0.3 }) {
            self.pick(&["cv1", "cv2"]).to_string()
        } else if self.chance(0.03) {
            "junk".to_string()
        } else {
            "base".to_string()
        };
        let free: Vec<&str> = ASK_IDS.iter().copied().filter(|i| !st.asks.contains_key(*i)).collect();
        let id = if free.is_empty() || self.chance(0.05) {
            self.pick(&["a1", "a1L", "a2U", "a3T", ""]).to_string()
        } else {
            free[self.rng.gen_range(0..free.len())].to_string()
        };
        let price = self.price(cfg);
        let size = self.size(cfg, price.n.max(1));
        let quote = if self.chance(0.03) { "q9".to_string() } else { self.pick(&["q1", "q1", "q2"]).to_string() };
        let funds = self.funds_for(&base, size, 0.07);
        ReqT::CreateAsk { sender: self.pick(&SELLERS).to_string(), funds, id, base, quote, price, size }
    }

    fn gen_create_bid(&mut self, st: &StateT) -> ReqT {
        let cfg = st.cfg.clone();
        let free: Vec<&str> = BID_IDS.iter().copied().filter(|i| !st.bids.contains_key(*i)).collect();
        let id = if free.is_empty() || self.chance(0.05) {
            self.pick(&["b1", "b1L", "b2U", "b3T", ""]).to_string()
        } else {
            free[self.rng.gen_range(0..free.len())].to_string()
        };
        // price bids against an open ask now and then, so that books cross
        let mut price = self.price(&cfg);
        if self.chance(0.6) {
            let asks: Vec<&AskT> = st.asks.values().collect();
            if let Some(a) = asks.choose(&mut self.rng) {
                let bump = 10i64.pow((4 - cfg.prec.min(4)) as u32) * self.rng.gen_range(0..3);
                price = self.spelling(a.price.n + bump);
            }
        }
        let size = self.size(&cfg, price.n.max(1));
        let mut total = price.n.max(0) * size / SCALE;
        if self.chance(0.04) {
            total += 1;
        }
        let due = if cfg.bidfee.some { half_up(cfg.bidfee.rate.n.max(0) * total, RSCALE) } else { 0 };
        let quote = self.pick(&["q1", "q1", "q2"]).to_string();
        let mut fee = if due > 0 { FeeT { some: true, amt: due, denom: quote.clone() } } else { FeeT::none() };
        if self.chance(0.05) {
            fee = match self.rng.gen_range(0..4) {
                0 => FeeT::none(),
                1 => FeeT { some: true, amt: due + 1, denom: quote.clone() },
                2 => FeeT { some: true, amt: due, denom: "q2".into() },
                _ => FeeT { some: true, amt: 0, denom: quote.clone() },
            };
        }
        let need = total + if fee.some { fee.amt } else { 0 };
        let funds = self.funds_for(&quote, need, 0.07);
        let base = if self.chance(0.03) { "cv1".to_string() } else { "base".to_string() };
        ReqT::CreateBid {
            sender: self.pick(&BUYERS).to_string(),
            funds,
            id,
            base,
            fee,
            price,
            quote,
            qsize: total.max(0),
            size,
        }
    }

    fn any_sender(&mut self, right: &str, p_right: f64) -> String {
        if self.chance(p_right) {
            right.to_string()
        } else {
            self.pick(&EVERYONE).to_string()
        }
    }

    fn gen_approve(&mut self, st: &StateT) -> Option<ReqT> {
        let pend: Vec<&AskT> =
            st.asks.values().filter(|a| a.class != "basic" && (a.class == "pending" || self.rng.gen_bool(0.1))).collect();
        let a = (*pend.choose(&mut self.rng)?).clone();
        let appr = st.cfg.approvers.choose(&mut self.rng).cloned().unwrap_or_else(|| "appr1".into());
        let sender = self.any_sender(&appr, 0.9);
        let size = if self.chance(0.05) { a.size + 1 } else { a.size };
        let base = if self.chance(0.04) { a.base.clone() } else { st.cfg.base.clone() };
        let funds = self.funds_for(&base, size, 0.06);
        Some(ReqT::ApproveAsk { sender, funds, id: a.id.clone(), base, size })
    }

    fn partial(&mut self, inc: i64, rem: i64) -> i64 {
        if self.chance(0.45) {
            return -1;
        }
        let inc = inc.max(1);
        let k = (rem / inc).max(1);
        let mut s = inc * self.rng.gen_range(1..=k);
        if self.chance(0.05) {
            s += 1;
        }
        if self.chance(0.04) {
            s = rem + inc;
        }
        s
    }

    fn gen_reverse(&mut self, st: &StateT) -> Option<ReqT> {
        let exec = st.cfg.executors.choose(&mut self.rng).cloned().unwrap_or_else(|| "exec1".into());
        let funds = if self.chance(0.02) { vec![CoinT { denom: "q1".into(), amt: 1 }] } else { vec![] };
        // come back to the focused orders with a small partial reject
        if self.chance(0.3) {
            if let Some(k) = self.focus_bid.clone() {
                if let Some(b) = st.bids.get(&k) {
                    let size = (st.cfg.inc.max(1) * self.rng.gen_range(1..=2)).min(b.size - b.ab);
                    return Some(ReqT::RejectBid { sender: exec, funds, id: k, size });
                }
            }
            if let Some(k) = self.focus_ask.clone() {
                if let Some(a) = st.asks.get(&k) {
                    let size = (st.cfg.inc.max(1) * self.rng.gen_range(1..=2)).min(a.size);
                    return Some(ReqT::RejectAsk { sender: exec, funds, id: k, size });
                }
            }
        }
        if self.chance(0.5) && !st.asks.is_empty() {
            let a = (*st.asks.values().collect::<Vec<_>>().choose(&mut self.rng)?).clone();
            let key = st.asks.iter().find(|(_, v)| **v == a).map(|(k, _)| k.clone())?;
            Some(match self.rng.gen_range(0..3) {
                0 => ReqT::CancelAsk { sender: self.any_sender(&a.owner, 0.9), funds, id: key, size: -1 },
                1 => ReqT::ExpireAsk { sender: self.any_sender(&exec, 0.9), funds, id: key, size: -1 },
                _ => {
                    let size = self.partial(st.cfg.inc, a.size);
                    ReqT::RejectAsk { sender: self.any_sender(&exec, 0.92), funds, id: key, size }
                }
            })
        } else if !st.bids.is_empty() {
            let (key, b) = {
                let v: Vec<(&String, &BidT)> = st.bids.iter().collect();
                let (k, b) = v.choose(&mut self.rng)?;
                ((*k).clone(), (*b).clone())
            };
            Some(match self.rng.gen_range(0..3) {
                0 => ReqT::CancelBid { sender: self.any_sender(&b.owner, 0.9), funds, id: key, size: -1 },
                1 => ReqT::ExpireBid { sender: self.any_sender(&exec, 0.9), funds, id: key, size: -1 },
                _ => {
                    let size = self.partial(st.cfg.inc, b.size - b.ab);
                    ReqT::RejectBid { sender: self.any_sender(&exec, 0.92), funds, id: key, size }
                }
            })
        } else {
            None
        }
    }

    fn gen_match(&mut self, st: &StateT) -> Option<ReqT> {
        let exec = st.cfg.executors.choose(&mut self.rng).cloned().unwrap_or_else(|| "exec1".into());
        let mut pairs: Vec<(String, String)> = vec![];
        for (ak, a) in &st.asks {
            for (bk, b) in &st.bids {
                let good = a.quote == b.quote && a.price.n <= b.price.n && a.class != "pending";
                if good || self.rng.gen_bool(0.03) {
                    pairs.push((ak.clone(), bk.clone()));
                }
            }
        }
        let mut chosen = pairs.choose(&mut self.rng)?.clone();
        let mut focused = false;
        if self.chance(0.55) {
            let fa = self.focus_ask.clone();
            let fb = self.focus_bid.clone();
            let cands: Vec<&(String, String)> =
                pairs.iter().filter(|(a, b)| Some(a) == fa.as_ref() || Some(b) == fb.as_ref()).collect();
            if let Some(c) = cands.choose(&mut self.rng) {
                chosen = (*c).clone();
                focused = true;
            }
        }
        let (ak, bk) = chosen;
        let a = st.asks[&ak].clone();
        let b = st.bids[&bk].clone();
        let n = match self.rng.gen_range(0..20) {
            0..=8 => a.price.n,
            9..=17 => b.price.n,
            18 => (a.price.n + b.price.n) / 2,
            _ => b.price.n + 10_000,
        };
        let price = self.spelling(n);
        let cap = a.size.min(b.size - b.ab).max(1);
        let size = if focused && self.chance(0.8) {
            // nibble: one to three lots, so that the focused order survives many operations
            (st.cfg.inc.max(1) * self.rng.gen_range(1..=3)).min(cap)
        } else {
            self.match_size(st, &a, &b, cap)
        };
        let funds = if self.chance(0.02) { vec![CoinT { denom: "q1".into(), amt: 1 }] } else { vec![] };
        Some(ReqT::ExecuteMatch { sender: self.any_sender(&exec, 0.93), funds, ask_id: ak, bid_id: bk, price, size })
    }

    fn match_size(&mut self, st: &StateT, a: &AskT, b: &BidT, cap: i64) -> i64 {
        match self.rng.gen_range(0..10) {
            0..=3 => cap,
            4..=5 => {
                let inc = st.cfg.inc.max(1);
                inc * self.rng.gen_range(1..=(cap / inc).max(1))
            }
            6..=7 => self.rng.gen_range(1..=cap),
            8 => cap + 1,
            _ => a.size.max(b.size - b.ab),
        }
    }

    fn gen_modify(&mut self, st: &StateT) -> ReqT {
        let exec = st.cfg.executors.choose(&mut self.rng).cloned().unwrap_or_else(|| "exec1".into());
        let mut approvers = none_seq();
        let mut executors = none_seq();
        let (mut ar, mut aa, mut br, mut ba) = (none_dec(), none_str(), none_dec(), none_str());
        let mut askattrs = none_seq();
        let mut bidattrs = none_seq();
        match self.rng.gen_range(0..8) {
            0 => {
                let mut v = st.cfg.approvers.clone();
                if self.chance(0.7) {
                    v.push(self.pick(&["appr2", "multi1", "seller2"]).to_string());
                } else if !v.is_empty() {
                    v.remove(0);
                }
                approvers = some(v);
            }
            1 => {
                let mut v = st.cfg.executors.clone();
                if self.chance(0.6) {
                    v.push(self.pick(&["exec2", "multi2", "buyer2"]).to_string());
                } else if v.len() > 1 {
                    v.pop();
                } else {
                    v = vec![];
                }
                executors = some(v);
            }
            2 | 3 => {
                let cur = if st.cfg.askfee.some { st.cfg.askfee.rate.n } else { 250_000 };
                let n = if self.chance(0.7) { cur } else { 100_000 };
                ar = some(self.spelling(n));
                aa = some(self.pick(&["askfee1", "askfee2", "multi1"]).to_string());
                if self.chance(0.15) {
                    ar = some(dec(0, "bad_empty"));
                    aa = some(String::new());
                }
                if self.chance(0.05) {
                    aa = none_str();
                }
            }
            4 | 5 => {
                let cur = if st.cfg.bidfee.some { st.cfg.bidfee.rate.n } else { 250_000 };
                let n = if self.chance(0.7) { cur } else { 50_000 };
                br = some(self.spelling(n));
                ba = some(self.pick(&["bidfee1", "bidfee2", "multi2"]).to_string());
                if self.chance(0.15) {
                    br = some(dec(0, "bad_empty"));
                    ba = some(String::new());
                }
            }
            6 => askattrs = some(if self.chance(0.5) { vec![] } else { vec!["kyc".into()] }),
            _ => bidattrs = some(if self.chance(0.5) { vec![] } else { vec!["kyc".into()] }),
        }
        ReqT::ModifyContract {
            sender: self.any_sender(&exec, 0.9),
            funds: if self.chance(0.03) { vec![CoinT { denom: "q1".into(), amt: 2 }] } else { vec![] },
            approvers,
            executors,
            askfee_rate: ar,
            askfee_acct: aa,
            bidfee_rate: br,
            bidfee_acct: ba,
            askattrs,
            bidattrs,
        }
    }

    fn gen_migrate_msg(&mut self) -> MigMsgT {
        let mut m = MigMsgT {
            approvers: none_seq(),
            askfee_rate: none_dec(),
            askfee_acct: none_str(),
            bidfee_rate: none_dec(),
            bidfee_acct: none_str(),
            askattrs: none_seq(),
            bidattrs: none_seq(),
        };
        match self.rng.gen_range(0..6) {
            0 => m.approvers = some(vec!["appr1".into(), "appr2".into()]),
            1 => {
                m.askfee_rate = some(dec(250_000, "plain"));
                m.askfee_acct = some("askfee2".into());
            }
            2 => {
                m.bidfee_rate = some(dec(0, "bad_empty"));
                m.bidfee_acct = some(String::new());
            }
            3 => m.askattrs = some(vec![]),
            4 => m.bidfee_rate = some(dec(250_000, "plain")),
            _ => {}
        }
        m
    }

    /// Rewrite the store as an older contract version would have left it: old version record and
    /// every open bid in the event-log format, re-encoded from the events recorded for it.
    fn time_travel(&mut self, st: &StateT) -> StateT {
        let ver = ["0.16.2", "0.17.0", "0.18.2", "0.19.0", "0.19.1", "0.16.1", "1.0.0-rc1", "garbage"];
        let v = ver[self.rng.gen_range(0..ver.len())];
        let mut s = st.clone();
        s.ver = v.to_string();
        let window = ["0.16.2", "0.17.0", "0.18.2", "0.19.0"].contains(&v);
        if window {
            for (k, b) in s.bids.iter_mut() {
                if let Some(log) = self.logs.get(k) {
                    if self.rng.gen_bool(0.8) {
                        b.fmt = "v2".into();
                        b.ab = 0;
                        b.aq = 0;
                        b.af = 0;
                        b.events = log.clone();
                    }
                }
            }
        }
        self.w.rewrite_bids_and_version(&s);
        self.w.project()
    }

    // ------------------------------------------------------------------ one history
    fn history(&mut self, steps: usize) {
        self.last_req = None;
        self.w.clear_storage();
        self.held.clear();
        self.logs.clear();
        self.focus_ask = None;
        self.focus_bid = None;
        self.env = self.gen_env();
        // a few malformed instantiation attempts first (each must be refused and leave nothing behind)
        let mut first = true;
        let tries = if self.profile == Profile::Create { self.rng.gen_range(0..4) } else { self.rng.gen_range(0..2) };
        for _ in 0..tries {
            let mut bad = self.gen_instantiate();
            if let ReqT::Instantiate { msg, .. } = &mut bad {
                match self.rng.gen_range(0..12) {
                    0 => msg.name = String::new(),
                    1 => msg.base = String::new(),
                    2 => msg.quotes = vec![],
                    3 => msg.executors = vec![],
                    4 => msg.prec = 19,
                    5 => msg.inc = 0,
                    6 => msg.inc += 1 + self.rng.gen_range(0..3),
                    7 => msg.askfee_acct = none_str(),
                    8 => msg.bidfee_rate = none_dec(),
                    9 => msg.approvers.push("BAD".into()),
                    10 => {
                        msg.askfee_rate = some(dec(0, "bad_word"));
                        msg.askfee_acct = some("askfee1".into());
                    }
                    _ => {
                        msg.bidfee_rate = some(dec(250_000, "plain"));
                        msg.bidfee_acct = some(String::new());
                    }
                }
            }
            let (r, p) = self.record(&bad, false, first, StateT::empty());
            first = false;
            if r.ok {
                // an accepted variant (e.g. increment + k that is still a multiple): start over from nothing
                let _ = p;
                self.w.clear_storage();
                first = true;
            }
        }
        let inst = self.gen_instantiate();
        let (resp, mut st) = self.record(&inst, false, first, StateT::empty());
        if !resp.ok {
            return;
        }
        let mut closed: Vec<String> = vec![];
        let mut need_reset = false;
        for _ in 0..steps {
            let p = self.profile;
            let roll = self.rng.gen_range(0..100);
            let (w_ask, w_bid, w_appr, w_rev, w_match, w_mod) = match p {
                Profile::Mixed => (16, 16, 8, 20, 28, 6),
                Profile::Match => (14, 16, 8, 8, 48, 2),
                Profile::Reverse => (16, 16, 8, 40, 14, 2),
                Profile::Create => (40, 40, 6, 6, 4, 2),
                Profile::Fee => (12, 20, 4, 24, 34, 2),
                Profile::Conv => (22, 12, 18, 22, 22, 2),
                Profile::Modify => (12, 12, 4, 12, 12, 44),
                Profile::Migrate => (16, 20, 6, 16, 28, 4),
                Profile::Env => (14, 14, 8, 16, 22, 2),
            };
            let req = if roll < w_ask {
                Some(self.gen_create_ask(&st))
            } else if roll < w_ask + w_bid {
                Some(self.gen_create_bid(&st))
            } else if roll < w_ask + w_bid + w_appr {
                self.gen_approve(&st)
            } else if roll < w_ask + w_bid + w_appr + w_rev {
                self.gen_reverse(&st)
            } else if roll < w_ask + w_bid + w_appr + w_rev + w_match {
                self.gen_match(&st)
            } else if roll < w_ask + w_bid + w_appr + w_rev + w_match + w_mod {
                Some(self.gen_modify(&st))
            } else {
                // change the environment now and then: marker types and attributes are chain state
                if self.chance(if p == Profile::Env { 0.7 } else { 0.1 }) {
                    let dn = self.pick(&["base", "cv1", "cv2", "q1", "q2"]).to_string();
                    let k = self.pick(&["restricted", "coin", "none"]).to_string();
                    self.env.marker.insert(dn, k);
                }
                if self.chance(0.3) {
                    let a = self.pick(&EVERYONE).to_string();
                    let e = self.env.attrs.entry(a).or_default();
                    if e.contains(&"kyc".to_string()) {
                        e.retain(|x| x != "kyc");
                    } else {
                        e.push("kyc".into());
                    }
                }
                None
            };
            let req = match req {
                Some(r) => r,
                None => continue,
            };
            // a retry: the previous request again, verbatim
            let retry = self.chance(0.06);
            let req = match (self.last_req.clone(), retry) {
                (Some(prev), true) => prev,
                _ => req,
            };
            self.last_req = Some(req.clone());
            let (_resp, post) = self.record(&req, false, need_reset, st.clone());
            need_reset = false;
            for k in st.asks.keys().chain(st.bids.keys()) {
                if !post.asks.contains_key(k) && !post.bids.contains_key(k) {
                    closed.push(k.clone());
                }
            }
            st = post;
            // keep a focused ask and bid: the largest open ones when the current focus has gone
            if self.focus_ask.as_ref().map(|k| !st.asks.contains_key(k)).unwrap_or(true) {
                self.focus_ask = st.asks.iter().filter(|(_, a)| a.class != "pending").max_by_key(|(_, a)| a.size).map(|(k, _)| k.clone());
            }
            if self.focus_bid.as_ref().map(|k| !st.bids.contains_key(k)).unwrap_or(true) {
                self.focus_bid = st.bids.iter().max_by_key(|(_, b)| b.size - b.ab).map(|(k, _)| k.clone());
            }
            self.probes(&st.clone(), &closed);

            if p == Profile::Migrate && self.chance(0.04) {
                // time travel, then migrate (twice), then carry on
                st = self.time_travel(&st);
                let m = self.gen_migrate_msg();
                let r = ReqT::Migrate { sender: "admin".into(), funds: vec![], msg: m.clone() };
                let (_r1, p1) = self.record(&r, false, true, st.clone());
                st = p1;
                let (_r2, p2) = self.record(&r, false, false, st.clone());
                st = p2;
                if st.ver != "1.0.0" {
                    // a refused migration leaves an old store: put the current version back and go on
                    let mut s2 = st.clone();
                    s2.ver = "1.0.0".into();
                    for b in s2.bids.values_mut() {
                        if b.fmt == "v2" {
                            // continue from the amounts the log describes
                            b.fmt = "v3".into();
                            b.ab = b.events.iter().map(|e| if e.kind == "refund" { 0 } else { e.base }).sum();
                            b.aq = b.events.iter().map(|e| e.quote).sum();
                            b.af = b.events.iter().map(|e| e.fee.amt).sum();
                            b.events = vec![];
                        }
                    }
                    self.w.rewrite_bids_and_version(&s2);
                    st = self.w.project();
                    need_reset = true;
                }
            }
        }
    }
}

fn sender_funds(req: &ReqT) -> (String, Vec<CoinT>) {
    let v = serde_json::to_value(req).unwrap();
    let s = v["sender"].as_str().unwrap_or("").to_string();
    let f: Vec<CoinT> = serde_json::from_value(v["funds"].clone()).unwrap_or_default();
    (s, f)
}

pub fn main(args: &[String]) -> i32 {
    let seed: u64 = arg(args, "--seed").and_then(|s| s.parse().ok()).unwrap_or(1);
    let steps: usize = arg(args, "--steps").and_then(|s| s.parse().ok()).unwrap_or(300);
    let histories: usize = arg(args, "--histories").and_then(|s| s.parse().ok()).unwrap_or(1);
    let profile = arg(args, "--profile").unwrap_or("mixed").to_string();
    let out_path = arg(args, "--out").unwrap_or("trace.ndjson").to_string();
    let stats_path = arg(args, "--stats").unwrap_or("drive_stats.json").to_string();
    let out = std::io::BufWriter::new(std::fs::File::create(&out_path).expect("create trace"));
    let mut d = Driver {
        rng: StdRng::seed_from_u64(seed),
        w: World::new(),
        env: EnvT { marker: BTreeMap::new(), attrs: BTreeMap::new() },
        profile: profile_of(&profile),
        seq: 0,
        held: BTreeMap::new(),
        logs: BTreeMap::new(),
        out,
        src: format!("drive:{}:{}", profile, seed),
        nrec: 0,
        nprobe: 0,
        by_kind: BTreeMap::new(),
        samples: vec![],
        focus_ask: None,
        focus_bid: None,
        last_req: None,
    };
    for h in 0..histories {
        d.rng = StdRng::seed_from_u64(seed.wrapping_mul(1_000_003).wrapping_add(h as u64));
        d.history(steps);
    }
    d.out.flush().unwrap();
    let st = serde_json::json!({
        "profile": profile, "seed": seed, "histories": histories, "steps": steps,
        "calls": d.nrec, "probes": d.nprobe,
        "by_kind": d.by_kind.iter().map(|(k, (a, r))| (k.clone(), serde_json::json!({"accepted": a, "refused": r}))).collect::<BTreeMap<_, _>>(),
        "samples": d.samples,
    });
    std::fs::write(&stats_path, serde_json::to_string_pretty(&st).unwrap()).unwrap();
    0
}
