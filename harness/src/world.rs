//! The world the contract runs in: real entry points, real storage, a marker / attribute
//! querier that answers per denomination / per account from the scenario's environment,
//! roll-back of refused calls, projection of the storage to the abstract state and injection
//! of an abstract state into the storage.  No oracle logic lives here.

use crate::model::*;
use crate::render::*;
#[allow(deprecated)]
use ats_smart_contract::bid_order::{BidOrderV2, BIDS_V2};
use ats_smart_contract::ask_order::{AskOrderClass, AskOrderStatus, AskOrderV1, ASKS_V1};
use ats_smart_contract::bid_order::{BidOrderV3, BIDS_V3};
use ats_smart_contract::common::{Action, FeeInfo};
use ats_smart_contract::contract::{execute, instantiate, migrate, query};
use ats_smart_contract::contract_info::{set_contract_info, ContractInfoV3};
use ats_smart_contract::msg::{ExecuteMsg, InstantiateMsg, MigrateMsg, QueryMsg};
use ats_smart_contract::tests::test_utils::setup_asset_marker;
use ats_smart_contract::version_info::{set_version_info, VersionInfoV1, CRATE_NAME};
use cosmwasm_std::testing::{mock_env, mock_info, MockApi, MockStorage};
use cosmwasm_std::{
    coin, to_binary, Addr, BankMsg, Binary, Coin, ContractResult, CosmosMsg, Empty, Order, OwnedDeps, Response,
    Storage, SystemResult, Uint128,
};
use prost::Message;
use provwasm_common::MockableQuerier;
use provwasm_mocks::{mock_provenance_dependencies, MockProvenanceQuerier};
use provwasm_std::types::provenance::attribute::v1::{
    Attribute, AttributeType, QueryAttributesRequest, QueryAttributesResponse,
};
use provwasm_std::types::provenance::marker::v1::{
    MarkerType, MsgTransferRequest, QueryMarkerRequest, QueryMarkerResponse,
};
use std::cell::RefCell;
use std::collections::BTreeMap;
use std::panic::{catch_unwind, AssertUnwindSafe};
use std::rc::Rc;

pub type Deps = OwnedDeps<MockStorage, MockApi, MockProvenanceQuerier, Empty>;

pub struct World {
    pub deps: Deps,
    pub env: Rc<RefCell<EnvT>>,
}

fn empty_env() -> EnvT {
    EnvT { marker: BTreeMap::new(), attrs: BTreeMap::new() }
}

impl World {
    pub fn new() -> World {
        let env = Rc::new(RefCell::new(empty_env()));
        let mut deps = mock_provenance_dependencies();
        let e1 = env.clone();
        deps.querier.register_custom_query(
            "/provenance.marker.v1.Query/Marker".into(),
            Box::new(move |data: &Binary| {
                let req = QueryMarkerRequest::decode(data.as_slice()).unwrap();
                let kind = e1.borrow().marker.get(&req.id).cloned().unwrap_or_else(|| "none".into());
                let resp = match kind.as_str() {
                    "restricted" => setup_asset_marker(
                        format!("marker_{}", req.id),
                        "access".into(),
                        req.id.clone(),
                        MarkerType::Restricted,
                    ),
                    "coin" => {
                        setup_asset_marker(format!("marker_{}", req.id), "access".into(), req.id.clone(), MarkerType::Coin)
                    }
                    _ => QueryMarkerResponse { marker: None },
                };
                SystemResult::Ok(ContractResult::Ok(to_binary(&resp).unwrap()))
            }),
        );
        let e2 = env.clone();
        deps.querier.register_custom_query(
            "/provenance.attribute.v1.Query/Attributes".into(),
            Box::new(move |data: &Binary| {
                let req = QueryAttributesRequest::decode(data.as_slice()).unwrap();
                let names = e2.borrow().attrs.get(&req.account).cloned().unwrap_or_default();
                let resp = QueryAttributesResponse {
                    account: req.account.clone(),
                    attributes: names
                        .into_iter()
                        .map(|n| Attribute {
                            name: n.clone(),
                            value: format!("{}_value", n).into_bytes(),
                            attribute_type: AttributeType::String.into(),
                            address: req.account.clone(),
                        })
                        .collect(),
                    pagination: None,
                };
                SystemResult::Ok(ContractResult::Ok(to_binary(&resp).unwrap()))
            }),
        );
        World { deps, env }
    }

    pub fn set_env(&mut self, env: &EnvT) {
        *self.env.borrow_mut() = env.clone();
    }

    pub fn clear_storage(&mut self) {
        self.deps.storage = MockStorage::new();
    }

    pub fn snapshot(&self) -> Vec<(Vec<u8>, Vec<u8>)> {
        self.deps.storage.range(None, None, Order::Ascending).collect()
    }

    pub fn restore(&mut self, snap: &[(Vec<u8>, Vec<u8>)]) {
        self.deps.storage = MockStorage::new();
        for (k, v) in snap {
            self.deps.storage.set(k, v);
        }
    }

    // ------------------------------------------------------------------ injection
    pub fn inject(&mut self, s: &StateT) {
        self.clear_storage();
        let st = &mut self.deps.storage;
        if s.cfg.set {
            set_contract_info(st, &cfg_to_chain(&s.cfg)).unwrap();
        }
        if s.ver != NO_VER {
            set_version_info(st, &VersionInfoV1 { definition: CRATE_NAME.to_string(), version: s.ver.clone() })
                .unwrap();
        }
        for (k, a) in &s.asks {
            ASKS_V1.save(st, render_id(k).as_bytes(), &ask_to_chain(a)).unwrap();
        }
        for (k, b) in &s.bids {
            if b.fmt == "v2" {
                #[allow(deprecated)]
                BIDS_V2.save(st, render_id(k).as_bytes(), &bid_to_chain_v2(b)).unwrap();
            } else {
                BIDS_V3.save(st, render_id(k).as_bytes(), &bid_to_chain(b)).unwrap();
            }
        }
        for e in &s.extra {
            st.set(e.as_bytes(), b"x");
        }
    }

    /// Rewrite only the version record and the bid map (used by time-travel migrations); everything
    /// else in the storage, including entries this harness does not know, keeps its bytes.
    pub fn rewrite_bids_and_version(&mut self, s: &StateT) {
        let keys: Vec<Vec<u8>> = self
            .deps
            .storage
            .range(None, None, Order::Ascending)
            .map(|(k, _)| k)
            .filter(|k| k.len() >= 5 && &k[0..5] == b"\x00\x03bid")
            .collect();
        for k in keys {
            self.deps.storage.remove(&k);
        }
        let st = &mut self.deps.storage;
        if s.ver != NO_VER {
            set_version_info(st, &VersionInfoV1 { definition: CRATE_NAME.to_string(), version: s.ver.clone() })
                .unwrap();
        }
        for (k, b) in &s.bids {
            if b.fmt == "v2" {
                #[allow(deprecated)]
                BIDS_V2.save(st, render_id(k).as_bytes(), &bid_to_chain_v2(b)).unwrap();
            } else {
                BIDS_V3.save(st, render_id(k).as_bytes(), &bid_to_chain(b)).unwrap();
            }
        }
    }

    // ------------------------------------------------------------------ projection
    pub fn project(&self) -> StateT {
        let mut s = StateT::empty();
        for (k, v) in self.deps.storage.range(None, None, Order::Ascending) {
            // the stored bytes themselves are parsed (not the crate's getters, which are code under test)
            if k == b"contract_info" {
                match serde_json::from_slice::<ContractInfoV3>(&v) {
                    Ok(ci) => s.cfg = cfg_from_chain(&ci),
                    Err(_) => s.extra.push("unreadable:contract_info".into()),
                }
            } else if k == b"version_info" {
                match serde_json::from_slice::<VersionInfoV1>(&v) {
                    Ok(vi) => {
                        s.ver = vi.version.clone();
                        if vi.definition != CRATE_NAME {
                            s.extra.push(format!("version_definition:{}", vi.definition));
                        }
                    }
                    Err(_) => s.extra.push("unreadable:version_info".into()),
                }
            } else if k.len() >= 5 && &k[0..5] == b"\x00\x03ask" {
                let key = String::from_utf8_lossy(&k[5..]).to_string();
                match serde_json::from_slice::<AskOrderV1>(&v) {
                    Ok(a) => {
                        s.asks.insert(unrender_id(&key), ask_from_chain(&a));
                    }
                    Err(_) => s.extra.push(format!("unreadable:ask:{}", unrender_id(&key))),
                }
            } else if k.len() >= 5 && &k[0..5] == b"\x00\x03bid" {
                let key = String::from_utf8_lossy(&k[5..]).to_string();
                // the storage format is told by the record's own shape (an old-format record carries an
                // event log), not by which of the crate's types happens to accept it
                let has_events = serde_json::from_slice::<serde_json::Value>(&v)
                    .ok()
                    .and_then(|j| j.as_object().map(|o| o.contains_key("events")))
                    .unwrap_or(false);
                let as_v3 = if has_events { None } else { serde_json::from_slice::<BidOrderV3>(&v).ok() };
                if let Some(b) = as_v3 {
                    s.bids.insert(unrender_id(&key), bid_from_chain(&b));
                } else {
                    #[allow(deprecated)]
                    match serde_json::from_slice::<BidOrderV2>(&v) {
                        Ok(b) => {
                            s.bids.insert(unrender_id(&key), bid_from_chain_v2(&b));
                        }
                        Err(_) => s.extra.push(format!("unreadable:bid:{}", unrender_id(&key))),
                    }
                }
            } else {
                s.extra.push(String::from_utf8_lossy(&k).to_string());
            }
        }
        s
    }

    // ------------------------------------------------------------------ calls
    /// Run one request against the real entry points.  A refusal (Err or panic) is rolled back.
    pub fn call(&mut self, req: &ReqT) -> RespT {
        let snap = self.snapshot();
        let out = catch_unwind(AssertUnwindSafe(|| self.dispatch(req)));
        let mut resp = match out {
            Ok(Ok(r)) => r,
            Ok(Err(e)) => refused(e),
            Err(p) => {
                let m = if let Some(s) = p.downcast_ref::<String>() {
                    s.clone()
                } else if let Some(s) = p.downcast_ref::<&str>() {
                    s.to_string()
                } else {
                    "?".into()
                };
                refused(format!("panic: {}", m))
            }
        };
        if !resp.ok {
            self.restore(&snap);
        }
        resp.touched = touched(&snap, &self.snapshot());
        resp
    }

    fn dispatch(&mut self, req: &ReqT) -> Result<RespT, String> {
        let env = mock_env();
        match req {
            ReqT::Instantiate { sender, funds, msg } => {
                let m: InstantiateMsg = via_json(serde_json::json!({
                    "name": msg.name, "base_denom": msg.base, "convertible_base_denoms": msg.convs,
                    "supported_quote_denoms": msg.quotes, "approvers": msg.approvers, "executors": msg.executors,
                    "ask_fee_rate": msg.askfee_rate.get().map(render_rate), "ask_fee_account": msg.askfee_acct.get(),
                    "bid_fee_rate": msg.bidfee_rate.get().map(render_rate), "bid_fee_account": msg.bidfee_acct.get(),
                    "ask_required_attributes": msg.askattrs, "bid_required_attributes": msg.bidattrs,
                    "price_precision": msg.prec.max(0).to_string(), "size_increment": msg.inc.max(0).to_string(),
                }))?;
                let r = instantiate(self.deps.as_mut(), env, mock_info(sender, &coins_of(funds)), m)
                    .map_err(|e| e.to_string())?;
                Ok(resp_of(&r, "init"))
            }
            ReqT::Migrate { msg, .. } => {
                let m: MigrateMsg = via_json(serde_json::json!({
                    "approvers": msg.approvers.get(),
                    "ask_fee_rate": msg.askfee_rate.get().map(render_rate), "ask_fee_account": msg.askfee_acct.get(),
                    "bid_fee_rate": msg.bidfee_rate.get().map(render_rate), "bid_fee_account": msg.bidfee_acct.get(),
                    "ask_required_attributes": msg.askattrs.get(), "bid_required_attributes": msg.bidattrs.get(),
                }))?;
                let r = migrate(self.deps.as_mut(), env, m).map_err(|e| e.to_string())?;
                Ok(resp_of(&r, "migrate"))
            }
            ReqT::QueryAsk { id, .. } => {
                let b = query(self.deps.as_ref(), env, via_json::<QueryMsg>(serde_json::json!({"get_ask": {"id": render_id(id)}}))?).map_err(|e| e.to_string())?;
                let res = match serde_json::from_slice::<AskOrderV1>(b.as_slice()) {
                    Ok(a) => ResultT::Ask { v: ask_from_chain(&a) },
                    Err(_) => ResultT::Other { v: String::from_utf8_lossy(b.as_slice()).to_string() },
                };
                Ok(query_resp(res))
            }
            ReqT::QueryBid { id, .. } => {
                let b = query(self.deps.as_ref(), env, via_json::<QueryMsg>(serde_json::json!({"get_bid": {"id": render_id(id)}}))?).map_err(|e| e.to_string())?;
                let res = match serde_json::from_slice::<BidOrderV3>(b.as_slice()) {
                    Ok(a) => ResultT::Bid { v: bid_from_chain(&a) },
                    Err(_) => ResultT::Other { v: String::from_utf8_lossy(b.as_slice()).to_string() },
                };
                Ok(query_resp(res))
            }
            ReqT::QueryCfg { .. } => {
                let b = query(self.deps.as_ref(), env, via_json::<QueryMsg>(serde_json::json!({"get_contract_info": {}}))?).map_err(|e| e.to_string())?;
                let res = match serde_json::from_slice::<ContractInfoV3>(b.as_slice()) {
                    Ok(a) => ResultT::Cfg { v: cfg_from_chain(&a) },
                    Err(_) => ResultT::Other { v: String::from_utf8_lossy(b.as_slice()).to_string() },
                };
                Ok(query_resp(res))
            }
            ReqT::QueryVer { .. } => {
                let b = query(self.deps.as_ref(), env, via_json::<QueryMsg>(serde_json::json!({"get_version_info": {}}))?).map_err(|e| e.to_string())?;
                let res = match serde_json::from_slice::<VersionInfoV1>(b.as_slice()) {
                    Ok(a) => ResultT::Ver { v: a.version },
                    Err(_) => ResultT::Other { v: String::from_utf8_lossy(b.as_slice()).to_string() },
                };
                Ok(query_resp(res))
            }
            _ => {
                let (sender, funds, msg) = execute_msg(req)?;
                let r = execute(self.deps.as_mut(), env, mock_info(&sender, &coins_of(&funds)), msg)
                    .map_err(|e| e.to_string())?;
                Ok(resp_of(&r, req.kind()))
            }
        }
    }
}

fn refused(why: String) -> RespT {
    RespT { ok: false, msgs: vec![], attrs: BTreeMap::new(), result: ResultT::None, why: vec![why], touched: vec![] }
}

fn query_resp(res: ResultT) -> RespT {
    RespT { ok: true, msgs: vec![], attrs: BTreeMap::new(), result: res, why: vec![], touched: vec![] }
}

fn ns_key(k: &[u8]) -> TouchT {
    let t = |ns: &str, key: String| TouchT { ns: ns.to_string(), key };
    if k == b"contract_info" {
        t("cfg", "".into())
    } else if k == b"version_info" {
        t("ver", "".into())
    } else if k.len() >= 5 && &k[0..5] == b"\x00\x03ask" {
        t("ask", unrender_id(&String::from_utf8_lossy(&k[5..])))
    } else if k.len() >= 5 && &k[0..5] == b"\x00\x03bid" {
        t("bid", unrender_id(&String::from_utf8_lossy(&k[5..])))
    } else {
        t("extra", String::from_utf8_lossy(k).to_string())
    }
}

/// storage entries whose bytes differ between two snapshots
pub fn touched(a: &[(Vec<u8>, Vec<u8>)], b: &[(Vec<u8>, Vec<u8>)]) -> Vec<TouchT> {
    let ma: BTreeMap<&Vec<u8>, &Vec<u8>> = a.iter().map(|(k, v)| (k, v)).collect();
    let mb: BTreeMap<&Vec<u8>, &Vec<u8>> = b.iter().map(|(k, v)| (k, v)).collect();
    let mut out = vec![];
    for (k, v) in &ma {
        if mb.get(k) != Some(v) {
            out.push(ns_key(k));
        }
    }
    for k in mb.keys() {
        if !ma.contains_key(k) {
            out.push(ns_key(k));
        }
    }
    out.sort();
    out.dedup();
    out
}

fn coins_of(f: &[CoinT]) -> Vec<Coin> {
    f.iter().map(|c| coin(c.amt.max(0) as u128, c.denom.clone())).collect()
}

fn u(x: i64) -> Uint128 {
    Uint128::new(x.max(0) as u128)
}

fn opt_size(x: i64) -> Option<Uint128> {
    if x < 0 {
        None
    } else {
        Some(u(x))
    }
}

/// Chain types are built from JSON, not from struct literals: a field added to a message or to a
/// stored type (with a default) then neither breaks this harness nor needs it to change.
fn via_json<T: serde::de::DeserializeOwned>(v: serde_json::Value) -> Result<T, String> {
    serde_json::from_value(v).map_err(|e| format!("harness: cannot build chain value: {}", e))
}

fn execute_msg(req: &ReqT) -> Result<(String, Vec<CoinT>, ExecuteMsg), String> {
    let us = |x: i64| x.max(0).to_string();
    let os = |x: i64| if x < 0 { None } else { Some(x.to_string()) };
    let (sender, funds, j) = match req.clone() {
        ReqT::CreateAsk { sender, funds, id, base, quote, price, size } => (
            sender,
            funds,
            serde_json::json!({"create_ask": {"id": render_id(&id), "base": base, "quote": quote, "price": render_dec(&price), "size": us(size)}}),
        ),
        ReqT::CreateBid { sender, funds, id, base, fee, price, quote, qsize, size } => (
            sender,
            funds,
            serde_json::json!({"create_bid": {"id": render_id(&id), "base": base,
                "fee": if fee.some { Some(serde_json::json!({"denom": fee.denom, "amount": us(fee.amt)})) } else { None },
                "price": render_dec(&price), "quote": quote, "quote_size": us(qsize), "size": us(size)}}),
        ),
        ReqT::ApproveAsk { sender, funds, id, base, size } => {
            (sender, funds, serde_json::json!({"approve_ask": {"id": render_id(&id), "base": base, "size": us(size)}}))
        }
        ReqT::CancelAsk { sender, funds, id, .. } => (sender, funds, serde_json::json!({"cancel_ask": {"id": render_id(&id)}})),
        ReqT::ExpireAsk { sender, funds, id, .. } => (sender, funds, serde_json::json!({"expire_ask": {"id": render_id(&id)}})),
        ReqT::RejectAsk { sender, funds, id, size } => {
            (sender, funds, serde_json::json!({"reject_ask": {"id": render_id(&id), "size": os(size)}}))
        }
        ReqT::CancelBid { sender, funds, id, .. } => (sender, funds, serde_json::json!({"cancel_bid": {"id": render_id(&id)}})),
        ReqT::ExpireBid { sender, funds, id, .. } => (sender, funds, serde_json::json!({"expire_bid": {"id": render_id(&id)}})),
        ReqT::RejectBid { sender, funds, id, size } => {
            (sender, funds, serde_json::json!({"reject_bid": {"id": render_id(&id), "size": os(size)}}))
        }
        ReqT::ExecuteMatch { sender, funds, ask_id, bid_id, price, size } => (
            sender,
            funds,
            serde_json::json!({"execute_match": {"ask_id": render_id(&ask_id), "bid_id": render_id(&bid_id),
                "price": render_dec(&price), "size": us(size)}}),
        ),
        ReqT::ModifyContract {
            sender, funds, approvers, executors, askfee_rate, askfee_acct, bidfee_rate, bidfee_acct, askattrs, bidattrs,
        } => (
            sender,
            funds,
            serde_json::json!({"modify_contract": {
                "approvers": approvers.get(), "executors": executors.get(),
                "ask_fee_rate": askfee_rate.get().map(render_rate), "ask_fee_account": askfee_acct.get(),
                "bid_fee_rate": bidfee_rate.get().map(render_rate), "bid_fee_account": bidfee_acct.get(),
                "ask_required_attributes": askattrs.get(), "bid_required_attributes": bidattrs.get()}}),
        ),
        _ => unreachable!("not an execute request"),
    };
    Ok((sender, funds, via_json::<ExecuteMsg>(j)?))
}

// ---------------------------------------------------------------------- responses
fn resp_of(r: &Response, kind: &str) -> RespT {
    let mut msgs = vec![];
    for sm in &r.messages {
        match &sm.msg {
            CosmosMsg::Bank(BankMsg::Send { to_address, amount }) => {
                if amount.len() != 1 {
                    msgs.push(MsgT {
                        kind: "other".into(),
                        from: CONTRACT_TOKEN.into(),
                        to: unrender_acct(to_address),
                        admin: "".into(),
                        denom: format!("bank_send_with_{}_coins", amount.len()),
                        amt: 0,
                    });
                }
                for c in amount {
                    msgs.push(MsgT {
                        kind: "bank".into(),
                        from: CONTRACT_TOKEN.into(),
                        to: unrender_acct(to_address),
                        admin: "".into(),
                        denom: c.denom.clone(),
                        amt: amt(c.amount.u128()),
                    });
                }
            }
            CosmosMsg::Stargate { type_url, value } if type_url == "/provenance.marker.v1.MsgTransferRequest" => {
                match MsgTransferRequest::decode(value.as_slice()) {
                    Ok(t) => {
                        let (denom, a) = match &t.amount {
                            Some(c) => (c.denom.clone(), c.amount.parse::<u128>().map(amt).unwrap_or(-1)),
                            None => ("".into(), -1),
                        };
                        msgs.push(MsgT {
                            kind: "marker".into(),
                            from: unrender_acct(&t.from_address),
                            to: unrender_acct(&t.to_address),
                            admin: unrender_acct(&t.administrator),
                            denom,
                            amt: a,
                        });
                    }
                    Err(_) => msgs.push(other_msg("undecodable_transfer")),
                }
            }
            CosmosMsg::Stargate { type_url, .. } => msgs.push(other_msg(type_url)),
            _ => msgs.push(other_msg("unknown_message_kind")),
        }
    }
    let mut attrs: BTreeMap<String, serde_json::Value> = BTreeMap::new();
    let action =
        r.attributes.iter().find(|a| a.key == "action").map(|a| a.value.clone()).unwrap_or_else(|| kind.to_string());
    let s = |x: String| serde_json::Value::String(x);
    let int = |x: &str| match x.parse::<u128>() {
        Ok(v) => serde_json::json!(amt(v)),
        Err(_) => serde_json::json!(-1),
    };
    for a in &r.attributes {
        let mut extra: Option<(String, serde_json::Value)> = None;
        let v = match a.key.as_str() {
            "id" | "ask_id" | "bid_id" => s(unrender_id(&a.value)),
            "size" | "reverse_size" | "ask_fee" | "bid_fee" | "quote_size" => int(&a.value),
            "price" => {
                if action == "execute" {
                    match parse_scaled(&a.value) {
                        Some(n) => serde_json::json!(n),
                        None => serde_json::json!(-1),
                    }
                } else {
                    let d = unrender_dec(&a.value);
                    s(format!("{}/{}", d.n, d.sp))
                }
            }
            "class" => match serde_json::from_str::<AskOrderClass>(&a.value) {
                Ok(c) => {
                    extra = Some(("class_full".into(), s(class_str(&c))));
                    s(class_short(&c))
                }
                Err(_) => s(format!("unparsable:{}", a.value)),
            },
            "fee" => s(fee_attr(&a.value)),
            "contract_info" => continue,
            _ => s(a.value.clone()),
        };
        // a repeated key keeps its first value and is flagged
        if attrs.contains_key(&a.key) {
            attrs.insert(format!("dup:{}", a.key), v);
        } else {
            attrs.insert(a.key.clone(), v);
        }
        if let Some((k, v)) = extra {
            attrs.entry(k).or_insert(v);
        }
    }
    RespT { ok: true, msgs, attrs, result: ResultT::None, why: vec![], touched: vec![] }
}

fn other_msg(what: &str) -> MsgT {
    MsgT { kind: "other".into(), from: "".into(), to: "".into(), admin: "".into(), denom: what.to_string(), amt: 0 }
}

/// `Coin { 1 "q1" }` (Debug of a Coin) -> "1/q1"; `None` -> "none"
fn fee_attr(s: &str) -> String {
    if s == "None" {
        return "none".into();
    }
    let t = s.trim();
    if let Some(inner) = t.strip_prefix("Coin {").and_then(|x| x.strip_suffix('}')) {
        let inner = inner.trim();
        if let Some((a, d)) = inner.split_once(' ') {
            return format!("{}/{}", a.trim(), d.trim().trim_matches('"'));
        }
    }
    format!("unparsable:{}", s)
}

fn class_short(c: &AskOrderClass) -> String {
    match c {
        AskOrderClass::Basic => "basic".into(),
        AskOrderClass::Convertible { status: AskOrderStatus::PendingIssuerApproval } => "pending".into(),
        AskOrderClass::Convertible { status: AskOrderStatus::Ready { .. } } => "ready".into(),
    }
}

fn class_str(c: &AskOrderClass) -> String {
    match c {
        AskOrderClass::Basic => "basic".into(),
        AskOrderClass::Convertible { status: AskOrderStatus::PendingIssuerApproval } => "pending".into(),
        AskOrderClass::Convertible { status: AskOrderStatus::Ready { approver, converted_base } } => format!(
            "ready:{}:{}:{}",
            unrender_acct(approver.as_str()),
            converted_base.denom,
            amt(converted_base.amount.u128())
        ),
    }
}

// ---------------------------------------------------------------------- conversions
fn feeinfo_to_chain(f: &FeeInfoT) -> Option<FeeInfo> {
    if f.some {
        Some(FeeInfo { account: Addr::unchecked(f.acct.clone()), rate: render_rate(&f.rate) })
    } else {
        None
    }
}

fn feeinfo_from_chain(f: &Option<FeeInfo>) -> FeeInfoT {
    match f {
        Some(fi) => FeeInfoT { some: true, acct: fi.account.to_string(), rate: unrender_rate(&fi.rate) },
        None => FeeInfoT::none(),
    }
}

pub fn cfg_to_chain(c: &CfgT) -> ContractInfoV3 {
    let fee = |f: &FeeInfoT| if f.some { Some(serde_json::json!({"account": f.acct, "rate": render_rate(&f.rate)})) } else { None };
    via_json(serde_json::json!({
        "name": c.name, "bind_name": c.bind, "base_denom": c.base, "convertible_base_denoms": c.convs,
        "supported_quote_denoms": c.quotes, "approvers": c.approvers, "executors": c.executors,
        "ask_fee_info": fee(&c.askfee), "bid_fee_info": fee(&c.bidfee),
        "ask_required_attributes": c.askattrs, "bid_required_attributes": c.bidattrs,
        "price_precision": c.prec.max(0).to_string(), "size_increment": c.inc.max(0).to_string(),
    }))
    .expect("contract info")
}

pub fn cfg_from_chain(c: &ContractInfoV3) -> CfgT {
    CfgT {
        set: true,
        name: c.name.clone(),
        bind: c.bind_name.clone(),
        base: c.base_denom.clone(),
        convs: c.convertible_base_denoms.clone(),
        quotes: c.supported_quote_denoms.clone(),
        approvers: c.approvers.iter().map(|a| a.to_string()).collect(),
        executors: c.executors.iter().map(|a| a.to_string()).collect(),
        askfee: feeinfo_from_chain(&c.ask_fee_info),
        bidfee: feeinfo_from_chain(&c.bid_fee_info),
        askattrs: c.ask_required_attributes.clone(),
        bidattrs: c.bid_required_attributes.clone(),
        prec: amt(c.price_precision.u128()),
        inc: amt(c.size_increment.u128()),
    }
}

fn ask_to_chain(a: &AskT) -> AskOrderV1 {
    let class = match a.class.as_str() {
        "basic" => serde_json::json!("Basic"),
        "pending" => serde_json::json!({"Convertible": {"status": "PendingIssuerApproval"}}),
        _ => serde_json::json!({"Convertible": {"status": {"Ready": {"approver": a.approver,
                "converted_base": {"denom": a.convd, "amount": a.conva.max(0).to_string()}}}}}),
    };
    via_json(serde_json::json!({"id": render_id(&a.id), "owner": a.owner, "class": class, "base": a.base,
        "quote": a.quote, "price": render_dec(&a.price), "size": a.size.max(0).to_string()}))
    .expect("ask order")
}

pub fn ask_from_chain(a: &AskOrderV1) -> AskT {
    let (class, approver, convd, conva) = match &a.class {
        AskOrderClass::Basic => ("basic", String::new(), String::new(), 0),
        AskOrderClass::Convertible { status: AskOrderStatus::PendingIssuerApproval } => {
            ("pending", String::new(), String::new(), 0)
        }
        AskOrderClass::Convertible { status: AskOrderStatus::Ready { approver, converted_base } } => {
            ("ready", approver.to_string(), converted_base.denom.clone(), amt(converted_base.amount.u128()))
        }
    };
    AskT {
        id: unrender_id(&a.id),
        owner: a.owner.to_string(),
        base: a.base.clone(),
        quote: a.quote.clone(),
        price: unrender_dec(&a.price),
        size: amt(a.size.u128()),
        class: class.into(),
        approver,
        convd,
        conva,
    }
}

fn fee_to_chain(f: &FeeT) -> Option<Coin> {
    if f.some {
        Some(coin(f.amt.max(0) as u128, f.denom.clone()))
    } else {
        None
    }
}

fn fee_from_chain(f: &Option<Coin>) -> FeeT {
    match f {
        Some(c) => FeeT { some: true, amt: amt(c.amount.u128()), denom: c.denom.clone() },
        None => FeeT::none(),
    }
}

fn coin_json(amount: i64, denom: &str) -> serde_json::Value {
    serde_json::json!({"denom": denom, "amount": amount.max(0).to_string()})
}

fn bid_to_chain(b: &BidT) -> BidOrderV3 {
    via_json(serde_json::json!({
        "base": coin_json(b.size, &b.base),
        "accumulated_base": b.ab.max(0).to_string(), "accumulated_quote": b.aq.max(0).to_string(),
        "accumulated_fee": b.af.max(0).to_string(),
        "fee": if b.fee.some { Some(coin_json(b.fee.amt, &b.fee.denom)) } else { None },
        "id": render_id(&b.id), "owner": b.owner, "price": render_dec(&b.price), "quote": coin_json(b.qamt, &b.quote),
    }))
    .expect("bid order")
}

pub fn bid_from_chain(b: &BidOrderV3) -> BidT {
    BidT {
        fmt: "v3".into(),
        id: unrender_id(&b.id),
        owner: b.owner.to_string(),
        base: b.base.denom.clone(),
        size: amt(b.base.amount.u128()),
        price: unrender_dec(&b.price),
        quote: b.quote.denom.clone(),
        qamt: amt(b.quote.amount.u128()),
        fee: fee_from_chain(&b.fee),
        ab: amt(b.accumulated_base.u128()),
        aq: amt(b.accumulated_quote.u128()),
        af: amt(b.accumulated_fee.u128()),
        events: vec![],
    }
}

#[allow(deprecated)]
fn bid_to_chain_v2(b: &BidT) -> BidOrderV2 {
    let evfee = |e: &EventT| if e.fee.some { Some(coin_json(e.fee.amt, &b.quote)) } else { None };
    let events: Vec<serde_json::Value> = b
        .events
        .iter()
        .map(|e| {
            let action = match e.kind.as_str() {
                "fill" => serde_json::json!({"Fill": {"base": coin_json(e.base, &b.base), "fee": evfee(e),
                    "price": render_dec(&b.price), "quote": coin_json(e.quote, &b.quote)}}),
                "refund" => serde_json::json!({"Refund": {"fee": evfee(e), "quote": coin_json(e.quote, &b.quote)}}),
                _ => serde_json::json!({"Reject": {"base": coin_json(e.base, &b.base), "fee": evfee(e),
                    "quote": coin_json(e.quote, &b.quote)}}),
            };
            serde_json::json!({"action": action, "block_info": {"height": 0, "time": "0"}})
        })
        .collect();
    via_json(serde_json::json!({
        "base": coin_json(b.size, &b.base), "events": events,
        "fee": if b.fee.some { Some(coin_json(b.fee.amt, &b.fee.denom)) } else { None },
        "id": render_id(&b.id), "owner": b.owner, "price": render_dec(&b.price), "quote": coin_json(b.qamt, &b.quote),
    }))
    .expect("old-format bid order")
}

#[allow(deprecated)]
fn bid_from_chain_v2(b: &BidOrderV2) -> BidT {
    let evfee = |f: &Option<Coin>| match f {
        Some(c) => FeeT { some: true, amt: amt(c.amount.u128()), denom: String::new() },
        None => FeeT::none(),
    };
    BidT {
        fmt: "v2".into(),
        id: unrender_id(&b.id),
        owner: b.owner.to_string(),
        base: b.base.denom.clone(),
        size: amt(b.base.amount.u128()),
        price: unrender_dec(&b.price),
        quote: b.quote.denom.clone(),
        qamt: amt(b.quote.amount.u128()),
        fee: fee_from_chain(&b.fee),
        ab: 0,
        aq: 0,
        af: 0,
        events: b
            .events
            .iter()
            .map(|e| match &e.action {
                Action::Fill { base, fee, quote, .. } => {
                    EventT { kind: "fill".into(), base: amt(base.amount.u128()), quote: amt(quote.amount.u128()), fee: evfee(fee) }
                }
                Action::Refund { fee, quote } => {
                    EventT { kind: "refund".into(), base: 0, quote: amt(quote.amount.u128()), fee: evfee(fee) }
                }
                Action::Reject { base, fee, quote } => {
                    EventT { kind: "reject".into(), base: amt(base.amount.u128()), quote: amt(quote.amount.u128()), fee: evfee(fee) }
                }
            })
            .collect(),
    }
}
