//! Informational conformance of refusal reasons: for a request the specification refuses, the
//! FIRST failed guard (guards are listed in the code's order) determines the error the code is
//! expected to report.  This table maps (request kind, guard) to substrings of the error text, any
//! of which is accepted.  Differences are counted and sampled, never judged: no property speaks
//! about error variants.

pub fn expected(kind: &str, guard: &str) -> Option<&'static [&'static str]> {
    const INVALID: &[&str] = &["Invalid fields"];
    const UNAUTH: &[&str] = &["Unauthorized"];
    const NOCFG: &[&str] = &["not found"];
    const FUNDS_ORDER: &[&str] = &["Sent funds does not match order"];
    const LOAD: &[&str] = &["Failed to load order"];
    const NONINT: &[&str] = &["must be an integer"];
    const ADDR: &[&str] = &["Invalid input", "human address", "address"];
    Some(match (kind, guard) {
        // message-level validation: one aggregated error
        (_, "id") | (_, "ask_id") | (_, "bid_id") | (_, "base") | (_, "quote") | (_, "price_empty") | (_, "size")
        | (_, "quote_size") | (_, "approvers_empty") | (_, "executors_empty") | (_, "ask_fee_pair")
        | (_, "bid_fee_pair") | (_, "name") | (_, "supported_quote_denoms") | (_, "executors")
        | (_, "price_precision") => INVALID,
        ("instantiate", "base_denom") => INVALID,
        ("instantiate", "size_increment") => INVALID,
        ("instantiate", "approver_addr") | ("instantiate", "executor_addr") => ADDR,
        ("instantiate", "ask_fee") | ("instantiate", "bid_fee") => &["Invalid fields", "Invalid input", "address"],
        ("instantiate", "precision_increment_pair") => &["Size increment must be a multiple"],
        (_, "no_contract_info") => NOCFG,
        ("create_ask", "inconvertible_base") | ("create_bid", "base_denom") => &["Inconvertible base denomination"],
        ("create_ask", "funds") | ("create_bid", "funds") | ("approve_ask", "funds") => FUNDS_ORDER,
        ("cancel_ask", "funds") => &["Cannot send funds when canceling"],
        ("execute_match", "funds") => &["Cannot send funds when executing"],
        ("modify_contract", "funds") => &["Cannot send funds when modifying"],
        (_, "funds") => &["Cannot send funds when expiring"],
        (_, "unsupported_quote") | (_, "quote_mismatch") => &["Unsupported quote denomination"],
        ("create_ask", "size_increment") | ("create_bid", "size_increment") | (_, "price") => INVALID,
        (_, "attributes") | (_, "unauthorized") => UNAUTH,
        (_, "id_in_use") => INVALID,
        (_, "non_integer_total") | (_, "non_integer_original_total") => NONINT,
        ("create_bid", "quote_size_mismatch") => FUNDS_ORDER,
        ("create_bid", "fee") => &["Fee size is not", "Sent funds does not match order"],
        ("create_bid", "stored_bid_fee_rate") => &["Invalid fields", "exceeds max"],
        ("approve_ask", "no_such_ask") => INVALID,
        ("approve_ask", "already_approved") => &["already marked Ready"],
        ("approve_ask", "not_convertible") => &["Inconvertible base denomination"],
        ("approve_ask", "size_or_base_mismatch") => FUNDS_ORDER,
        (_, "no_such_ask") | (_, "no_such_bid") => LOAD,
        (_, "size_increment") | (_, "size_above_remainder") | (_, "fee_underflow") => INVALID,
        ("execute_match", "unparsable_price") => INVALID,
        ("execute_match", "ask_above_bid") => &["does not match Bid order price"],
        ("execute_match", "execute_price") => &["Execute price must be"],
        ("execute_match", "execute_size") => &["Execute size must be"],
        ("execute_match", "ask_fee_above_proceeds") => &["verflow", "Cannot Sub"],
        ("execute_match", "ask_not_ready") => &["not ready"],
        ("execute_match", "bid_fee_not_payable") => &["Bid fee account missing", "sufficient fee funds"],
        ("modify_contract", "ask_required_attributes") | ("modify_contract", "bid_required_attributes")
        | ("modify_contract", "ask_fee") | ("modify_contract", "bid_fee") | ("modify_contract", "approvers") => {
            &["Invalid fields", "panic"]
        }
        ("modify_contract", "version") | ("migrate", "unparsable_version") => {
            &["Unsupported upgrade", "not found", "version", "unexpected", "empty string", "invalid"]
        }
        ("modify_contract", "approver_addr") | ("modify_contract", "executor_addr") | ("migrate", "approver_addr") => ADDR,
        (_, "ask_fee_value") | (_, "bid_fee_value") => &["Invalid fields", "Invalid input", "address"],
        ("migrate", "no_version_info") => NOCFG,
        ("migrate", "unsupported_version") => &["Unsupported upgrade"],
        (_, "not_found") => &["not found", "Invalid fields", "missing field", "Error parsing"],
        _ => return None,
    })
}
