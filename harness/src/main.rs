//! Conformance harness binding spec/Ats.tla to the real contract.
//!
//!   harness replay --out <mismatch.ndjson> --stats <stats.json> [--threads N] [--all <file>]   < TLC stdout
//!       replay every transition TLC emitted on the real entry points and compare
//!   harness drive --seed S --profile P --steps N --histories H --out <trace.ndjson> --stats <stats.json>
//!       run seeded random histories on the real contract and record every call
//!   harness exec <record.json>
//!       re-execute one replay file (a transition record or a history) and print what the code does

mod drive;
mod errors;
mod model;
mod render;
mod replay;
mod world;

fn main() {
    // panics inside the contract are data (refusals); keep stderr quiet
    std::panic::set_hook(Box::new(|_| {}));
    let args: Vec<String> = std::env::args().collect();
    let code = match args.get(1).map(|s| s.as_str()) {
        Some("replay") => replay::main(&args[2..]),
        Some("drive") => drive::main(&args[2..]),
        Some("exec") => replay::exec_main(&args[2..]),
        Some("replay-instbig") => replay::instbig_main(&args[2..]),
        _ => {
            eprintln!("usage: harness replay|drive|exec ...");
            2
        }
    };
    std::process::exit(code);
}

pub fn arg<'a>(args: &'a [String], name: &str) -> Option<&'a str> {
    args.iter().position(|a| a == name).and_then(|i| args.get(i + 1)).map(|s| s.as_str())
}
