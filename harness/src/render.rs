//! Rendering of abstract tokens (ids, decimals) to the concrete strings the contract sees,
//! and the reverse mapping used by the projection.

use crate::model::DecT;
use std::cell::RefCell;
use std::collections::HashMap;

pub const SCALE: i64 = 10_000; // prices: four decimals
pub const RSCALE: i64 = 1_000_000; // fee rates: six decimals
pub const CONTRACT_TOKEN: &str = "contract";
pub const CONTRACT_ADDR: &str = cosmwasm_std::testing::MOCK_CONTRACT_ADDR;

thread_local! {
    static REV_ID: RefCell<HashMap<String, String>> = RefCell::new(HashMap::new());
    static REV_DEC: RefCell<HashMap<String, DecT>> = RefCell::new(HashMap::new());
    static REV_RATE: RefCell<HashMap<String, DecT>> = RefCell::new(HashMap::new());
}

fn base_uuid(tok: &str) -> String {
    // deterministic, reversible: the token's bytes (at most 6) in the first group(s)
    let mut hex = String::new();
    for b in tok.bytes().take(6) {
        hex.push_str(&format!("{:02x}", b));
    }
    while hex.len() < 12 {
        hex.push('0');
    }
    format!("{}-{}-4000-8000-00000000beef", &hex[0..8], &hex[8..12])
}

/// id token -> string.  A token is a base token ("a1", "b2", "s1", ...) optionally followed by a
/// form letter: L = un-hyphenated, U = upper case, B = braced, R = urn; T = truncated (not a UUID),
/// Z = not a UUID at all.  The empty token is the empty string.  "raw:<s>" renders as <s>.
pub fn render_id(tok: &str) -> String {
    if let Some(raw) = tok.strip_prefix("raw:") {
        return raw.to_string();
    }
    if tok.is_empty() {
        return String::new();
    }
    let (base, form) = match tok.chars().last() {
        Some(c) if "LUBRTZ".contains(c) && tok.len() > 1 => (&tok[..tok.len() - 1], Some(c)),
        _ => (tok, None),
    };
    let canon = base_uuid(base);
    let s = match form {
        None => canon,
        Some('L') => canon.replace('-', ""),
        Some('U') => canon.to_uppercase(),
        Some('B') => format!("{{{}}}", canon),
        Some('R') => format!("urn:uuid:{}", canon),
        Some('T') => canon[..canon.len() - 1].to_string(),
        Some('Z') => format!("not-a-uuid-{}", base),
        _ => unreachable!(),
    };
    REV_ID.with(|m| {
        m.borrow_mut().entry(s.clone()).or_insert_with(|| tok.to_string());
    });
    s
}

pub fn unrender_id(s: &str) -> String {
    if s.is_empty() {
        return String::new();
    }
    REV_ID.with(|m| m.borrow().get(s).cloned()).unwrap_or_else(|| format!("raw:{}", s))
}

fn plain(n: i64, scale: i64) -> String {
    let neg = n < 0;
    let a = n.unsigned_abs();
    let int = a / scale as u64;
    let frac = a % scale as u64;
    let mut s = int.to_string();
    if frac != 0 {
        let digits = (scale as f64).log10().round() as usize;
        let f = format!("{:0width$}", frac, width = digits);
        s.push('.');
        s.push_str(f.trim_end_matches('0'));
    }
    if neg {
        format!("-{}", s)
    } else {
        s
    }
}

/// price token -> string
pub fn render_dec(d: &DecT) -> String {
    render_scaled(d, SCALE)
}

/// fee-rate token -> string
pub fn render_rate(d: &DecT) -> String {
    render_scaled(d, RSCALE)
}

fn render_scaled(d: &DecT, scale: i64) -> String {
    if let Some(raw) = d.sp.strip_prefix("raw:") {
        return raw.to_string();
    }
    let p = plain(d.n, scale);
    let s = match d.sp.as_str() {
        "plain" => p,
        "t0" => {
            if p.contains('.') {
                format!("{}0", p)
            } else {
                format!("{}.0", p)
            }
        }
        "lead0" => {
            if let Some(rest) = p.strip_prefix('-') {
                format!("-0{}", rest)
            } else {
                format!("0{}", p)
            }
        }
        "plus" => format!("+{}", p),
        "dot" => {
            if p.contains('.') {
                format!("{}00", p)
            } else {
                format!("{}.", p)
            }
        }
        "bad_empty" => String::new(),
        "bad_word" => "abc".to_string(),
        "bad_exp" => format!("{}e0", p),
        "bad_space" => format!(" {}", p),
        "bad_tspace" => format!("{} ", p),
        other => format!("?{}?{}", other, p),
    };
    if scale == SCALE {
        REV_DEC.with(|m| {
            m.borrow_mut().entry(s.clone()).or_insert_with(|| d.clone());
        });
    } else {
        REV_RATE.with(|m| {
            m.borrow_mut().entry(s.clone()).or_insert_with(|| d.clone());
        });
    }
    s
}

/// Parse a decimal string numerically (own parser, no library): value * SCALE if exact.
pub fn parse_scaled(s: &str) -> Option<i64> {
    parse_scaled_to(s, 4)
}

pub fn parse_scaled_to(s: &str, digits: usize) -> Option<i64> {
    let (neg, body) = match s.strip_prefix('-') {
        Some(r) => (true, r),
        None => (false, s.strip_prefix('+').unwrap_or(s)),
    };
    if body.is_empty() {
        return None;
    }
    let (ip, fp) = match body.split_once('.') {
        Some((i, f)) => (i, f),
        None => (body, ""),
    };
    if ip.is_empty() && fp.is_empty() {
        return None;
    }
    if !ip.chars().all(|c| c.is_ascii_digit()) || !fp.chars().all(|c| c.is_ascii_digit()) {
        return None;
    }
    let mut v: i128 = 0;
    for c in ip.chars() {
        v = v.checked_mul(10)?.checked_add((c as u8 - b'0') as i128)?;
    }
    let mut frac = fp.to_string();
    while frac.len() > digits {
        if !frac.ends_with('0') {
            return None;
        }
        frac.pop();
    }
    while frac.len() < digits {
        frac.push('0');
    }
    v = v.checked_mul(10i128.pow(digits as u32))?;
    v += frac.parse::<i128>().ok()?;
    if v > 2_000_000_000 {
        return None;
    }
    Some(if neg { -(v as i64) } else { v as i64 })
}

/// string -> decimal token (the token that was rendered to it, else a raw token carrying the
/// numeric value when it has one)
pub fn unrender_dec(s: &str) -> DecT {
    if let Some(d) = REV_DEC.with(|m| m.borrow().get(s).cloned()) {
        return d;
    }
    DecT { n: parse_scaled(s).unwrap_or(0), sp: format!("raw:{}", s) }
}

/// string -> fee-rate token
pub fn unrender_rate(s: &str) -> DecT {
    if let Some(d) = REV_RATE.with(|m| m.borrow().get(s).cloned()) {
        return d;
    }
    DecT { n: parse_scaled_to(s, 6).unwrap_or(0), sp: format!("raw:{}", s) }
}

pub fn render_acct(tok: &str) -> String {
    if tok == CONTRACT_TOKEN {
        CONTRACT_ADDR.to_string()
    } else {
        tok.to_string()
    }
}

pub fn unrender_acct(s: &str) -> String {
    if s == CONTRACT_ADDR {
        CONTRACT_TOKEN.to_string()
    } else {
        s.to_string()
    }
}

/// Clamp an on-chain amount into the range the TLA+ side can represent.
pub fn amt(x: u128) -> i64 {
    if x > 2_000_000_000 {
        2_000_000_000
    } else {
        x as i64
    }
}
