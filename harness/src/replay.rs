//! spec -> code: replay of every transition emitted by TLC.

use crate::arg;
use crate::model::*;
use crate::world::World;
use std::collections::BTreeMap;
use std::io::{BufRead, Write};
use std::sync::atomic::{AtomicU64, Ordering};
use std::sync::mpsc::sync_channel;
use std::sync::{Arc, Mutex};

/// storage entries the abstract states say must differ
pub fn abstract_touched(a: &StateT, b: &StateT) -> Vec<TouchT> {
    let t = |ns: &str, key: &str| TouchT { ns: ns.to_string(), key: key.to_string() };
    let mut out = vec![];
    if a.cfg != b.cfg {
        out.push(t("cfg", ""));
    }
    if a.ver != b.ver {
        out.push(t("ver", ""));
    }
    for (k, v) in &a.asks {
        if b.asks.get(k) != Some(v) {
            out.push(t("ask", k));
        }
    }
    for k in b.asks.keys() {
        if !a.asks.contains_key(k) {
            out.push(t("ask", k));
        }
    }
    for (k, v) in &a.bids {
        if b.bids.get(k) != Some(v) {
            out.push(t("bid", k));
        }
    }
    for k in b.bids.keys() {
        if !a.bids.contains_key(k) {
            out.push(t("bid", k));
        }
    }
    out.sort();
    out.dedup();
    out
}

/// Equality of abstract states up to storage entries the specification does not know (an
/// implementation may keep more than orders, configuration and version; no property forbids it).
pub fn same_state(a: &StateT, b: &StateT) -> bool {
    a.cfg == b.cfg && a.ver == b.ver && a.asks == b.asks && a.bids == b.bids
}

/// Does the observation equal this admissible outcome?  Strict and dumb on purpose: the
/// judgement of what a difference means is made by TLC (spec/AtsTrace.tla), not here.
pub fn same_outcome(exp: &OutT, from: &StateT, obs: &RespT, post: &StateT) -> Result<(), String> {
    if exp.resp.ok != obs.ok {
        return Err(format!("ok: expected {} observed {} ({:?})", exp.resp.ok, obs.ok, obs.why));
    }
    let epost = apply_diff(from, &exp.post)?;
    if !same_state(&epost, post) {
        return Err("post-state differs".into());
    }
    if obs.ok {
        let mut a = exp.resp.msgs.clone();
        let mut b = obs.msgs.clone();
        a.sort();
        b.sort();
        if a != b {
            return Err("messages differ".into());
        }
        for (k, v) in &exp.resp.attrs {
            if obs.attrs.get(k) != Some(v) {
                return Err(format!("attribute {}: expected {:?} observed {:?}", k, v, obs.attrs.get(k)));
            }
        }
        if exp.resp.result != obs.result {
            return Err("query result differs".into());
        }
    }
    touched_ok(exp, from, obs)
}

/// Informational conformance beyond what the properties state: does the implementation emit its
/// messages in the order the specification lists them (the code's call-site order), and does it
/// emit attributes the specification does not model?  Counted, never judged.
/// refusal-reason conformance (informational): None = not applicable / conforms, Some(text) = differs
pub fn error_class(kind: &str, exp: &OutT, obs: &RespT) -> Option<Result<(), String>> {
    if exp.resp.ok || obs.ok {
        return None;
    }
    let guard = exp.resp.why.first()?;
    let alts = match crate::errors::expected(kind, guard) {
        Some(a) => a,
        None => return Some(Err(format!("{} / {} -> (no entry in the table)", kind, guard))),
    };
    let text = obs.why.first().cloned().unwrap_or_default();
    if alts.iter().any(|a| text.contains(a)) {
        Some(Ok(()))
    } else {
        Some(Err(format!("{} / {} -> {}", kind, guard, text)))
    }
}

pub fn informational(exp: &OutT, obs: &RespT) -> (bool, Vec<String>) {
    let order_same = exp.resp.msgs == obs.msgs;
    let extra: Vec<String> = obs
        .attrs
        .keys()
        .filter(|k| !exp.resp.attrs.contains_key(*k))
        .cloned()
        .collect();
    (order_same, extra)
}

fn touched_ok(exp: &OutT, from: &StateT, obs: &RespT) -> Result<(), String> {
    let epost = apply_diff(from, &exp.post)?;
    let known: Vec<TouchT> = obs.touched.iter().filter(|t| t.ns != "extra").cloned().collect();
    if abstract_touched(from, &epost) != known {
        return Err(format!("touched entries: expected {:?} observed {:?}", abstract_touched(from, &epost), obs.touched));
    }
    Ok(())
}

#[derive(Default)]
struct Stats {
    records: AtomicU64,
    mismatches: AtomicU64,
    roundtrip_failures: AtomicU64,
    parse_failures: AtomicU64,
    followups: AtomicU64,
    info_order_differs: AtomicU64,
    info_extra_attrs: AtomicU64,
    info_error_class: AtomicU64,
    info_error_checked: AtomicU64,
    info_extra_storage: AtomicU64,
}

/// the post-state of the first admissible outcome (what the specification expected)
fn apply_first(e: &EdgeT) -> StateT {
    e.outs.first().and_then(|o| apply_diff(&e.from, &o.post).ok()).unwrap_or_else(|| e.from.clone())
}

/// Divergence probes.  When the implementation reaches a state the specification does not
/// (a replay mismatch with a different post-state), the downstream consequences are outside the
/// model's graph.  They are made visible by running, on copies of the diverged storage, the
/// requests that wind the book down: owner cancel and executor expire of every order, and
/// complete fills of every crossing pair at either limit price.  Each is recorded as an
/// independent observation (pre = the diverged state) and judged by TLC like any other.
fn followups(w: &mut World, e: &EdgeT, post: &StateT, seq: u64) -> Vec<ObsT> {
    let mut out = vec![];
    w.set_env(&e.env);
    // the storage is still exactly what the call left behind (no re-injection: unknown entries keep their bytes)
    let snap = w.snapshot();
    let exec = post.cfg.executors.first().cloned().unwrap_or_else(|| "exec1".to_string());
    let mut reqs: Vec<ReqT> = vec![];
    for (k, a) in &post.asks {
        reqs.push(ReqT::CancelAsk { sender: a.owner.clone(), funds: vec![], id: k.clone(), size: -1 });
        reqs.push(ReqT::ExpireAsk { sender: exec.clone(), funds: vec![], id: k.clone(), size: -1 });
    }
    for (k, b) in &post.bids {
        reqs.push(ReqT::CancelBid { sender: b.owner.clone(), funds: vec![], id: k.clone(), size: -1 });
        reqs.push(ReqT::ExpireBid { sender: exec.clone(), funds: vec![], id: k.clone(), size: -1 });
    }
    for k in post.asks.keys() {
        reqs.push(ReqT::QueryAsk { sender: "anyone".into(), funds: vec![], id: k.clone() });
    }
    for k in post.bids.keys() {
        reqs.push(ReqT::QueryBid { sender: "anyone".into(), funds: vec![], id: k.clone() });
    }
    for (ak, a) in &post.asks {
        for (bk, b) in &post.bids {
            let s = a.size.min(b.size - b.ab);
            if s >= 1 && a.quote == b.quote {
                for p in [a.price.clone(), b.price.clone()] {
                    reqs.push(ReqT::ExecuteMatch {
                        sender: exec.clone(),
                        funds: vec![],
                        ask_id: ak.clone(),
                        bid_id: bk.clone(),
                        price: p,
                        size: s,
                    });
                }
            }
        }
    }
    for r in reqs.into_iter().take(24) {
        w.restore(&snap);
        let resp = w.call(&r);
        let p2 = w.project();
        out.push(ObsT {
            src: format!("followup:{}", e.scen),
            seq,
            reset: false,
            chained: false,
            native: e.native,
            probe: false,
            pre: post.clone(),
            env: e.env.clone(),
            req: r,
            resp,
            post: p2,
            dontcare: vec![],
            ledger: None,
        });
    }
    out
}

fn unescape_line(line: &str) -> Option<String> {
    // TLC prints the record as a TLA+ string literal: "{\"scen\":...}"
    if !line.starts_with("\"{") {
        return None;
    }
    serde_json::from_str::<String>(line).ok()
}

pub fn replay_edge(w: &mut World, e: &EdgeT) -> (RespT, StateT, Result<(), String>, bool, (bool, Vec<String>, Option<Result<(), String>>)) {
    w.set_env(&e.env);
    w.inject(&e.from);
    let rt_ok = same_state(&w.project(), &e.from);
    let resp = w.call(&e.req);
    let post = w.project();
    let mut verdict = Err("no admissible outcome listed".to_string());
    let mut info = (true, vec![], None);
    for o in &e.outs {
        verdict = same_outcome(o, &e.from, &resp, &post);
        if verdict.is_ok() {
            let (a, b) = informational(o, &resp);
            info = (a, b, error_class(e.req.kind(), o, &resp));
            break;
        }
    }
    (resp, post, verdict, rt_ok, info)
}

pub fn main(args: &[String]) -> i32 {
    let out_path = arg(args, "--out").unwrap_or("mismatch.ndjson").to_string();
    let stats_path = arg(args, "--stats").unwrap_or("replay_stats.json").to_string();
    let threads: usize = arg(args, "--threads").and_then(|s| s.parse().ok()).unwrap_or(12);
    let all_path = arg(args, "--all").map(|s| s.to_string());
    let sample_n: usize = arg(args, "--samples").and_then(|s| s.parse().ok()).unwrap_or(3);

    let out = Arc::new(Mutex::new(std::io::BufWriter::new(std::fs::File::create(&out_path).expect("create out"))));
    let all = all_path
        .map(|p| Arc::new(Mutex::new(std::io::BufWriter::new(std::fs::File::create(p).expect("create all")))));
    let stats = Arc::new(Stats::default());
    let kinds: Arc<Mutex<BTreeMap<String, (u64, u64)>>> = Arc::new(Mutex::new(BTreeMap::new()));
    let samples: Arc<Mutex<Vec<serde_json::Value>>> = Arc::new(Mutex::new(vec![]));
    let other_lines: Arc<Mutex<Vec<String>>> = Arc::new(Mutex::new(vec![]));
    let err_samples_all: Arc<Mutex<Vec<String>>> = Arc::new(Mutex::new(vec![]));

    let (tx, rx) = sync_channel::<Vec<String>>(64);
    let rx = Arc::new(Mutex::new(rx));
    let mut handles = vec![];
    for _ in 0..threads {
        let rx = rx.clone();
        let out = out.clone();
        let all = all.clone();
        let stats = stats.clone();
        let kinds = kinds.clone();
        let samples = samples.clone();
        let err_samples = err_samples_all.clone();
        handles.push(std::thread::spawn(move || {
            let mut w = World::new();
            let mut local: BTreeMap<String, (u64, u64)> = BTreeMap::new();
            loop {
                let batch = {
                    let g = rx.lock().unwrap();
                    g.recv()
                };
                let batch = match batch {
                    Ok(b) => b,
                    Err(_) => break,
                };
                for js in batch {
                    let e: EdgeT = match serde_json::from_str(&js) {
                        Ok(e) => e,
                        Err(err) => {
                            stats.parse_failures.fetch_add(1, Ordering::Relaxed);
                            eprintln!("harness: cannot parse record: {} :: {}", err, &js[..js.len().min(300)]);
                            continue;
                        }
                    };
                    let seq = stats.records.fetch_add(1, Ordering::Relaxed);
                    let (resp, post, verdict, rt_ok, info) = replay_edge(&mut w, &e);
                    if !info.0 {
                        stats.info_order_differs.fetch_add(1, Ordering::Relaxed);
                    }
                    if info.1.iter().any(|k| k != "class_full") {
                        stats.info_extra_attrs.fetch_add(1, Ordering::Relaxed);
                    }
                    if info.2.is_some() {
                        stats.info_error_checked.fetch_add(1, Ordering::Relaxed);
                    }
                    if !post.extra.is_empty() {
                        stats.info_extra_storage.fetch_add(1, Ordering::Relaxed);
                    }
                    if let Some(Err(t)) = &info.2 {
                        stats.info_error_class.fetch_add(1, Ordering::Relaxed);
                        let mut g = err_samples.lock().unwrap();
                        if g.len() < 12 && !g.iter().any(|x: &String| x.split(" -> ").next() == t.split(" -> ").next()) {
                            g.push(t.clone());
                        }
                    }
                    if !rt_ok {
                        stats.roundtrip_failures.fetch_add(1, Ordering::Relaxed);
                        eprintln!("harness: projection(injection(S)) != S for record {}", seq);
                    }
                    let ent = local.entry(e.req.kind().to_string()).or_insert((0, 0));
                    if resp.ok {
                        ent.0 += 1;
                    } else {
                        ent.1 += 1;
                    }
                    let need_obs = verdict.is_err() || all.is_some();
                    if need_obs {
                        let obs = ObsT {
                            src: format!("replay:{}", e.scen),
                            seq,
                            reset: false,
                            chained: false,
                            native: e.native,
                            probe: false,
                            pre: e.from.clone(),
                            env: e.env.clone(),
                            req: e.req.clone(),
                            resp: resp.clone(),
                            post: post.clone(),
                            dontcare: vec![],
                            ledger: None,
                        };
                        let mut v = serde_json::to_value(&obs).unwrap();
                        if let Err(why) = &verdict {
                            stats.mismatches.fetch_add(1, Ordering::Relaxed);
                            v["mismatch"] = serde_json::Value::String(why.clone());
                            // the code went somewhere the specification does not go: look at what follows
                            let follow = if !same_state(&post, &apply_first(&e)) { followups(&mut w, &e, &post, seq) } else { vec![] };
                            let mut g = out.lock().unwrap();
                            writeln!(g, "{}", v).unwrap();
                            for f in follow {
                                stats.followups.fetch_add(1, Ordering::Relaxed);
                                writeln!(g, "{}", serde_json::to_string(&f).unwrap()).unwrap();
                            }
                        }
                        if let Some(a) = &all {
                            let mut g = a.lock().unwrap();
                            writeln!(g, "{}", v).unwrap();
                        }
                    }
                    if (seq as usize) < sample_n * 997 && seq % 997 == 0 {
                        let mut g = samples.lock().unwrap();
                        if g.len() < sample_n {
                            g.push(serde_json::json!({"scen": e.scen, "req": e.req, "observed_ok": resp.ok,
                                "observed_msgs": resp.msgs, "matches_spec": verdict.is_ok()}));
                        }
                    }
                }
            }
            let mut g = kinds.lock().unwrap();
            for (k, (a, r)) in local {
                let e = g.entry(k).or_insert((0, 0));
                e.0 += a;
                e.1 += r;
            }
        }));
    }

    let stdin = std::io::stdin();
    let mut batch = Vec::with_capacity(256);
    for line in stdin.lock().lines() {
        let line = match line {
            Ok(l) => l,
            Err(_) => break,
        };
        match unescape_line(&line) {
            Some(js) => {
                batch.push(js);
                if batch.len() >= 256 {
                    tx.send(std::mem::take(&mut batch)).unwrap();
                }
            }
            None => {
                // TLC's own output (progress, errors, coverage): kept for the caller
                other_lines.lock().unwrap().push(line);
            }
        }
    }
    if !batch.is_empty() {
        tx.send(batch).unwrap();
    }
    drop(tx);
    for h in handles {
        h.join().unwrap();
    }
    out.lock().unwrap().flush().unwrap();
    if let Some(a) = &all {
        a.lock().unwrap().flush().unwrap();
    }
    let kinds = kinds.lock().unwrap();
    let st = serde_json::json!({
        "records": stats.records.load(Ordering::Relaxed),
        "mismatches": stats.mismatches.load(Ordering::Relaxed),
        "roundtrip_failures": stats.roundtrip_failures.load(Ordering::Relaxed),
        "parse_failures": stats.parse_failures.load(Ordering::Relaxed),
        "followups": stats.followups.load(Ordering::Relaxed),
        "info_message_order_differs": stats.info_order_differs.load(Ordering::Relaxed),
        "info_unmodelled_attributes": stats.info_extra_attrs.load(Ordering::Relaxed),
        "info_error_class_differs": stats.info_error_class.load(Ordering::Relaxed),
        "info_error_class_checked": stats.info_error_checked.load(Ordering::Relaxed),
        "info_unknown_storage_entries": stats.info_extra_storage.load(Ordering::Relaxed),
        "info_error_class_samples": *err_samples_all.lock().unwrap(),
        "by_kind": kinds.iter().map(|(k, (a, r))| (k.clone(), serde_json::json!({"accepted": a, "refused": r}))).collect::<BTreeMap<_, _>>(),
        "samples": *samples.lock().unwrap(),
        "tlc_output": *other_lines.lock().unwrap(),
    });
    std::fs::write(&stats_path, serde_json::to_string_pretty(&st).unwrap()).unwrap();
    0
}

/// Re-execute one replay file: a JSON object with pre/env/req (an independent record) or an
/// ndjson history (records chained from a reset).  Prints what the implementation does.
pub fn exec_main(args: &[String]) -> i32 {
    let path = match args.first() {
        Some(p) => p,
        None => {
            eprintln!("usage: harness exec <file>");
            return 2;
        }
    };
    let text = std::fs::read_to_string(path).expect("read replay file");
    let mut w = World::new();
    for (i, line) in text.lines().enumerate() {
        if line.trim().is_empty() {
            continue;
        }
        let v: serde_json::Value = serde_json::from_str(line).expect("json");
        let env: EnvT = serde_json::from_value(v["env"].clone()).expect("env");
        let req: ReqT = serde_json::from_value(v["req"].clone()).expect("req");
        let chained = v.get("chained").and_then(|b| b.as_bool()).unwrap_or(false);
        let reset = v.get("reset").and_then(|b| b.as_bool()).unwrap_or(false);
        w.set_env(&env);
        if !chained || reset || i == 0 {
            let pre: StateT = serde_json::from_value(v["pre"].clone()).expect("pre");
            w.inject(&pre);
        }
        let resp = w.call(&req);
        let post = w.project();
        println!("{}", serde_json::json!({"step": i, "req": req, "resp": resp, "post": post}));
    }
    0
}

/// Scenario instbig: instantiate with increments beyond 32 bits (digits strings); TLC computed `accept`.
pub fn instbig_main(args: &[String]) -> i32 {
    use ats_smart_contract::contract::instantiate;
    use ats_smart_contract::contract_info::get_contract_info;
    use ats_smart_contract::msg::InstantiateMsg;
    use cosmwasm_std::testing::{mock_env, mock_info};
    use cosmwasm_std::Uint128;
    use std::str::FromStr;
    let stats_path = arg(args, "--stats").unwrap_or("instbig_stats.json").to_string();
    let mut w = World::new();
    let mut n = 0u64;
    let mut mism: Vec<serde_json::Value> = vec![];
    let mut other: Vec<String> = vec![];
    let mut samples: Vec<serde_json::Value> = vec![];
    let stdin = std::io::stdin();
    for line in stdin.lock().lines() {
        let line = match line {
            Ok(l) => l,
            Err(_) => break,
        };
        let js = match unescape_line(&line) {
            Some(j) => j,
            None => {
                other.push(line);
                continue;
            }
        };
        let v: serde_json::Value = serde_json::from_str(&js).expect("instbig record");
        let prec = v["prec"].as_u64().unwrap() as u128;
        let inc_s = v["inc"].as_str().unwrap().to_string();
        let expect = v["accept"].as_bool().unwrap();
        let inc = match Uint128::from_str(&inc_s) {
            Ok(x) => x,
            Err(_) => continue,
        };
        n += 1;
        w.clear_storage();
        let msg = InstantiateMsg {
            name: "ats".into(),
            base_denom: "base".into(),
            convertible_base_denoms: vec![],
            supported_quote_denoms: vec!["q1".into()],
            approvers: vec!["appr1".into()],
            executors: vec!["exec1".into()],
            ask_fee_rate: None,
            ask_fee_account: None,
            bid_fee_rate: None,
            bid_fee_account: None,
            ask_required_attributes: vec![],
            bid_required_attributes: vec![],
            price_precision: Uint128::new(prec),
            size_increment: inc,
        };
        let res = std::panic::catch_unwind(std::panic::AssertUnwindSafe(|| {
            instantiate(w.deps.as_mut(), mock_env(), mock_info("admin", &[]), msg)
        }));
        let ok = matches!(res, Ok(Ok(_)));
        let mut stored_ok = true;
        let mut stored = String::new();
        if ok {
            match get_contract_info(&w.deps.storage) {
                Ok(ci) => {
                    stored = format!("{}/{}", ci.price_precision, ci.size_increment);
                    stored_ok = ci.price_precision.u128() == prec && ci.size_increment.to_string() == inc_s;
                }
                Err(_) => stored_ok = false,
            }
        }
        if ok != expect || !stored_ok {
            mism.push(serde_json::json!({"prec": prec as u64, "inc": inc_s, "expected_accept": expect, "observed_accept": ok,
                "stored": stored, "clause": if ok && !expect { "C13.only_if" } else if !ok && expect { "C13.if" } else { "C13.stored" }}));
        }
        if samples.len() < 3 && n % 701 == 5 {
            samples.push(serde_json::json!({"scen": "instbig", "prec": prec as u64, "inc": inc_s, "expected_accept": expect, "observed_accept": ok}));
        }
    }
    let st = serde_json::json!({"records": n, "mismatches": mism, "samples": samples, "tlc_output": other});
    std::fs::write(&stats_path, serde_json::to_string_pretty(&st).unwrap()).unwrap();
    0
}
