//! JSON shapes exchanged with the TLA+ side (see spec/Ats.tla, spec/AtsReq.tla).
//! Everything is records / arrays / strings / integers / booleans so that a value
//! survives the round trip TLC -> JSON -> harness -> JSON -> TLC unchanged.

use serde::de::{self, Deserializer};
use serde::{Deserialize, Serialize};
use std::collections::BTreeMap;

/// TLC prints a function with empty domain as `[]`; accept that as an empty map.
pub fn de_map<'de, D, V>(d: D) -> Result<BTreeMap<String, V>, D::Error>
where
    D: Deserializer<'de>,
    V: serde::de::DeserializeOwned,
{
    let v = serde_json::Value::deserialize(d)?;
    match v {
        serde_json::Value::Array(a) if a.is_empty() => Ok(BTreeMap::new()),
        serde_json::Value::Object(_) => serde_json::from_value(v).map_err(de::Error::custom),
        other => Err(de::Error::custom(format!("expected map, got {}", other))),
    }
}

#[derive(Serialize, Deserialize, Clone, Debug, PartialEq, Eq, PartialOrd, Ord, Hash)]
pub struct DecT {
    pub n: i64,
    pub sp: String,
}

#[derive(Serialize, Deserialize, Clone, Debug, PartialEq, Eq, PartialOrd, Ord)]
pub struct FeeT {
    pub some: bool,
    pub amt: i64,
    pub denom: String,
}

impl FeeT {
    pub fn none() -> FeeT {
        FeeT { some: false, amt: 0, denom: String::new() }
    }
}

#[derive(Serialize, Deserialize, Clone, Debug, PartialEq, Eq)]
pub struct FeeInfoT {
    pub some: bool,
    pub acct: String,
    pub rate: DecT,
}

impl FeeInfoT {
    pub fn none() -> FeeInfoT {
        FeeInfoT { some: false, acct: String::new(), rate: DecT { n: 0, sp: "plain".into() } }
    }
}

#[derive(Serialize, Deserialize, Clone, Debug, PartialEq, Eq)]
pub struct CfgT {
    pub set: bool,
    pub name: String,
    pub bind: String,
    pub base: String,
    pub convs: Vec<String>,
    pub quotes: Vec<String>,
    pub approvers: Vec<String>,
    pub executors: Vec<String>,
    pub askfee: FeeInfoT,
    pub bidfee: FeeInfoT,
    pub askattrs: Vec<String>,
    pub bidattrs: Vec<String>,
    pub prec: i64,
    pub inc: i64,
}

impl CfgT {
    pub fn unset() -> CfgT {
        CfgT {
            set: false,
            name: "".into(),
            bind: "".into(),
            base: "".into(),
            convs: vec![],
            quotes: vec![],
            approvers: vec![],
            executors: vec![],
            askfee: FeeInfoT::none(),
            bidfee: FeeInfoT::none(),
            askattrs: vec![],
            bidattrs: vec![],
            prec: 0,
            inc: 0,
        }
    }
}

#[derive(Serialize, Deserialize, Clone, Debug, PartialEq, Eq)]
pub struct AskT {
    pub id: String,
    pub owner: String,
    pub base: String,
    pub quote: String,
    pub price: DecT,
    pub size: i64,
    pub class: String, // basic | pending | ready
    pub approver: String,
    pub convd: String,
    pub conva: i64,
}

#[derive(Serialize, Deserialize, Clone, Debug, PartialEq, Eq)]
pub struct EventT {
    pub kind: String, // fill | refund | reject
    pub base: i64,
    pub quote: i64,
    pub fee: FeeT,
}

#[derive(Serialize, Deserialize, Clone, Debug, PartialEq, Eq)]
pub struct BidT {
    pub fmt: String, // v3 | v2
    pub id: String,
    pub owner: String,
    pub base: String,
    pub size: i64,
    pub price: DecT,
    pub quote: String,
    pub qamt: i64,
    pub fee: FeeT,
    pub ab: i64,
    pub aq: i64,
    pub af: i64,
    pub events: Vec<EventT>,
}

pub const NO_VER: &str = "<none>";

#[derive(Serialize, Deserialize, Clone, Debug, PartialEq, Eq)]
pub struct StateT {
    pub cfg: CfgT,
    pub ver: String,
    #[serde(deserialize_with = "de_map")]
    pub asks: BTreeMap<String, AskT>,
    #[serde(deserialize_with = "de_map")]
    pub bids: BTreeMap<String, BidT>,
    pub extra: Vec<String>,
}

impl StateT {
    pub fn empty() -> StateT {
        StateT { cfg: CfgT::unset(), ver: NO_VER.into(), asks: BTreeMap::new(), bids: BTreeMap::new(), extra: vec![] }
    }
}

/// The components of a post-state that differ from the pre-state.
#[derive(Serialize, Deserialize, Clone, Debug, Default)]
pub struct StateDiffT {
    pub cfg: Option<CfgT>,
    pub ver: Option<String>,
    pub asks: Option<MapOrEmpty<AskT>>,
    pub bids: Option<MapOrEmpty<BidT>>,
    pub extra: Option<Vec<String>>,
}

#[derive(Serialize, Clone, Debug)]
pub struct MapOrEmpty<V>(pub BTreeMap<String, V>);

impl<'de, V: serde::de::DeserializeOwned> Deserialize<'de> for MapOrEmpty<V> {
    fn deserialize<D: Deserializer<'de>>(d: D) -> Result<Self, D::Error> {
        de_map(d).map(MapOrEmpty)
    }
}

/// `post` of an emitted outcome: `[]` (nothing changed) or a record of the changed components.
pub fn apply_diff(from: &StateT, diff: &serde_json::Value) -> Result<StateT, String> {
    let mut s = from.clone();
    match diff {
        serde_json::Value::Array(a) if a.is_empty() => Ok(s),
        serde_json::Value::Object(_) => {
            let d: StateDiffT = serde_json::from_value(diff.clone()).map_err(|e| e.to_string())?;
            if let Some(c) = d.cfg {
                s.cfg = c;
            }
            if let Some(v) = d.ver {
                s.ver = v;
            }
            if let Some(a) = d.asks {
                s.asks = a.0;
            }
            if let Some(b) = d.bids {
                s.bids = b.0;
            }
            if let Some(e) = d.extra {
                s.extra = e;
            }
            Ok(s)
        }
        other => Err(format!("bad post diff {}", other)),
    }
}

#[derive(Serialize, Deserialize, Clone, Debug, PartialEq, Eq)]
pub struct EnvT {
    #[serde(deserialize_with = "de_map")]
    pub marker: BTreeMap<String, String>, // denom -> restricted | coin | none
    #[serde(deserialize_with = "de_map")]
    pub attrs: BTreeMap<String, Vec<String>>, // account -> attribute names
}

#[derive(Serialize, Deserialize, Clone, Debug, PartialEq, Eq, PartialOrd, Ord)]
pub struct CoinT {
    pub denom: String,
    pub amt: i64,
}

#[derive(Serialize, Deserialize, Clone, Debug, PartialEq, Eq)]
pub struct Opt<T> {
    pub some: bool,
    pub v: T,
}

impl<T> Opt<T> {
    pub fn get(&self) -> Option<&T> {
        if self.some {
            Some(&self.v)
        } else {
            None
        }
    }
}

#[derive(Serialize, Deserialize, Clone, Debug, PartialEq, Eq)]
pub struct InstMsgT {
    pub name: String,
    pub base: String,
    pub convs: Vec<String>,
    pub quotes: Vec<String>,
    pub approvers: Vec<String>,
    pub executors: Vec<String>,
    pub askfee_rate: Opt<DecT>,
    pub askfee_acct: Opt<String>,
    pub bidfee_rate: Opt<DecT>,
    pub bidfee_acct: Opt<String>,
    pub askattrs: Vec<String>,
    pub bidattrs: Vec<String>,
    pub prec: i64,
    pub inc: i64,
}

#[derive(Serialize, Deserialize, Clone, Debug, PartialEq, Eq)]
pub struct MigMsgT {
    pub approvers: Opt<Vec<String>>,
    pub askfee_rate: Opt<DecT>,
    pub askfee_acct: Opt<String>,
    pub bidfee_rate: Opt<DecT>,
    pub bidfee_acct: Opt<String>,
    pub askattrs: Opt<Vec<String>>,
    pub bidattrs: Opt<Vec<String>>,
}

#[derive(Serialize, Deserialize, Clone, Debug, PartialEq, Eq)]
#[serde(tag = "kind", rename_all = "snake_case")]
pub enum ReqT {
    Instantiate { sender: String, funds: Vec<CoinT>, msg: InstMsgT },
    CreateAsk { sender: String, funds: Vec<CoinT>, id: String, base: String, quote: String, price: DecT, size: i64 },
    CreateBid {
        sender: String,
        funds: Vec<CoinT>,
        id: String,
        base: String,
        fee: FeeT,
        price: DecT,
        quote: String,
        qsize: i64,
        size: i64,
    },
    ApproveAsk { sender: String, funds: Vec<CoinT>, id: String, base: String, size: i64 },
    CancelAsk { sender: String, funds: Vec<CoinT>, id: String, size: i64 },
    ExpireAsk { sender: String, funds: Vec<CoinT>, id: String, size: i64 },
    RejectAsk { sender: String, funds: Vec<CoinT>, id: String, size: i64 },
    CancelBid { sender: String, funds: Vec<CoinT>, id: String, size: i64 },
    ExpireBid { sender: String, funds: Vec<CoinT>, id: String, size: i64 },
    RejectBid { sender: String, funds: Vec<CoinT>, id: String, size: i64 },
    ExecuteMatch { sender: String, funds: Vec<CoinT>, ask_id: String, bid_id: String, price: DecT, size: i64 },
    ModifyContract {
        sender: String,
        funds: Vec<CoinT>,
        approvers: Opt<Vec<String>>,
        executors: Opt<Vec<String>>,
        askfee_rate: Opt<DecT>,
        askfee_acct: Opt<String>,
        bidfee_rate: Opt<DecT>,
        bidfee_acct: Opt<String>,
        askattrs: Opt<Vec<String>>,
        bidattrs: Opt<Vec<String>>,
    },
    Migrate { sender: String, funds: Vec<CoinT>, msg: MigMsgT },
    QueryAsk { sender: String, funds: Vec<CoinT>, id: String },
    QueryBid { sender: String, funds: Vec<CoinT>, id: String },
    QueryCfg { sender: String, funds: Vec<CoinT>, id: String },
    QueryVer { sender: String, funds: Vec<CoinT>, id: String },
}

impl ReqT {
    pub fn kind(&self) -> &'static str {
        match self {
            ReqT::Instantiate { .. } => "instantiate",
            ReqT::CreateAsk { .. } => "create_ask",
            ReqT::CreateBid { .. } => "create_bid",
            ReqT::ApproveAsk { .. } => "approve_ask",
            ReqT::CancelAsk { .. } => "cancel_ask",
            ReqT::ExpireAsk { .. } => "expire_ask",
            ReqT::RejectAsk { .. } => "reject_ask",
            ReqT::CancelBid { .. } => "cancel_bid",
            ReqT::ExpireBid { .. } => "expire_bid",
            ReqT::RejectBid { .. } => "reject_bid",
            ReqT::ExecuteMatch { .. } => "execute_match",
            ReqT::ModifyContract { .. } => "modify_contract",
            ReqT::Migrate { .. } => "migrate",
            ReqT::QueryAsk { .. } => "query_ask",
            ReqT::QueryBid { .. } => "query_bid",
            ReqT::QueryCfg { .. } => "query_cfg",
            ReqT::QueryVer { .. } => "query_ver",
        }
    }
}

#[derive(Serialize, Deserialize, Clone, Debug, PartialEq, Eq, PartialOrd, Ord)]
pub struct MsgT {
    pub kind: String, // bank | marker | other
    pub from: String,
    pub to: String,
    pub admin: String,
    pub denom: String,
    pub amt: i64,
}

/// Query result / no result.
#[derive(Serialize, Deserialize, Clone, Debug, PartialEq, Eq)]
#[serde(tag = "kind", rename_all = "snake_case")]
pub enum ResultT {
    None,
    Ask { v: AskT },
    Bid { v: BidT },
    Cfg { v: CfgT },
    Ver { v: String },
    Other { v: String },
}

#[derive(Serialize, Deserialize, Clone, Debug, PartialEq, Eq, PartialOrd, Ord)]
pub struct TouchT {
    pub ns: String, // cfg | ver | ask | bid | extra
    pub key: String,
}

#[derive(Serialize, Deserialize, Clone, Debug)]
pub struct RespT {
    pub ok: bool,
    pub msgs: Vec<MsgT>,
    #[serde(deserialize_with = "de_map")]
    pub attrs: BTreeMap<String, serde_json::Value>,
    pub result: ResultT,
    /// diagnostic only: failed guards (spec) or the error text (implementation)
    #[serde(default)]
    pub why: Vec<String>,
    /// storage entries whose bytes changed (implementation side only)
    #[serde(default)]
    pub touched: Vec<TouchT>,
}

#[derive(Deserialize, Clone, Debug)]
pub struct OutT {
    pub resp: RespT,
    pub post: serde_json::Value,
}

fn yes() -> bool {
    true
}

/// One transition emitted by TLC.
#[derive(Deserialize, Clone, Debug)]
pub struct EdgeT {
    pub scen: String,
    #[serde(default = "yes")]
    pub native: bool,
    pub from: StateT,
    pub env: EnvT,
    pub req: ReqT,
    pub outs: Vec<OutT>,
}

/// One call observed on the implementation (judged by spec/AtsTrace.tla).
#[derive(Serialize, Clone, Debug)]
pub struct ObsT {
    pub src: String,
    pub seq: u64,
    pub reset: bool,
    pub chained: bool,
    pub native: bool,
    pub probe: bool,
    pub pre: StateT,
    pub env: EnvT,
    pub req: ReqT,
    pub resp: RespT,
    pub post: StateT,
    pub dontcare: Vec<String>,
    #[serde(skip_serializing_if = "Option::is_none")]
    pub ledger: Option<BTreeMap<String, i64>>,
}
