------------------------------- MODULE MC_auth -------------------------------
(* Scenario auth: the complete sender x request x reachable-state matrix, for three     *)
(* castings of the roles (all distinct; owners doubling as approver / executor / fee     *)
(* accounts; one account playing every role), across changes of the executor and         *)
(* approver lists by configuration requests.                                             *)
EXTENDS AtsMC

CONSTANT Tier

P(k) == Dec(k * SCALE, "plain")
R(n) == Dec(n * 100, "plain")          \* a rate given in units of 0.0001

Casts == {
  [name |-> "distinct", seller |-> "seller1", buyer |-> "buyer1", approvers |-> <<"appr1">>, approvers2 |-> <<"appr1", "appr2">>,
   executors |-> <<"exec1">>, executors2 |-> <<"exec2">>, askfee |-> "askfee1", bidfee |-> "bidfee1",
   senders |-> {"seller1", "buyer1", "appr1", "appr2", "exec1", "exec2", "askfee1", "bidfee1", "stranger"}],
  [name |-> "overlap", seller |-> "multi1", buyer |-> "multi2", approvers |-> <<"multi1">>, approvers2 |-> <<"multi1", "appr2">>,
   executors |-> <<"multi2">>, executors2 |-> <<"exec2", "multi2">>, askfee |-> "multi1", bidfee |-> "multi2",
   senders |-> {"multi1", "multi2", "appr2", "exec2", "stranger"}],
  [name |-> "single", seller |-> "multi1", buyer |-> "multi1", approvers |-> <<"multi1">>, approvers2 |-> <<"multi1", "appr2">>,
   executors |-> <<"multi1">>, executors2 |-> <<"exec2">>, askfee |-> "multi1", bidfee |-> "multi1",
   senders |-> {"multi1", "appr2", "exec2", "stranger"}],
  \* the seller collects the ask fee and the buyer the bid fee, while approver and executor are other accounts
  [name |-> "feeowners", seller |-> "multi1", buyer |-> "multi2", approvers |-> <<"appr1">>, approvers2 |-> <<"appr1", "appr2">>,
   executors |-> <<"exec1">>, executors2 |-> <<"exec1", "exec2">>, askfee |-> "multi1", bidfee |-> "multi2",
   senders |-> {"multi1", "multi2", "appr1", "exec1", "stranger"}],
  \* no approver configured at all (instantiation allows it): nobody may approve
  [name |-> "noappr", seller |-> "seller1", buyer |-> "buyer1", approvers |-> <<>>, approvers2 |-> <<"appr2">>,
   executors |-> <<"exec1">>, executors2 |-> <<"exec1", "exec2">>, askfee |-> "askfee1", bidfee |-> "bidfee1",
   senders |-> {"seller1", "buyer1", "appr1", "appr2", "exec1", "stranger"}] }

CfgOf(c) == InstMsg("ats", "base", <<"cv1">>, <<"q1">>, c.approvers, c.executors,
                    FeeInfo(c.askfee, R(5000)), FeeInfo(c.bidfee, R(2500)), <<>>, <<>>, 0, 1)

Envs == {[marker |-> [d \in {"base", "cv1", "q1"} |-> "coin"], attrs |-> <<>>, cast |-> c] : c \in Casts}

Init == /\ st = EmptyState
        /\ cenv \in Envs
        /\ act = NoAct

C == cenv.cast
Tot(p, s) == (p.n * s) \div SCALE

AskReqs == {RCreateAsk(C.seller, Coins1(b, 2), "a1", b, "q1", P(1), 2) : b \in {"cv1", "base"}}
BidReqs(S) == {RCreateBid(C.buyer, Coins1("q1", Tot(P(2), 2) + FeeAmt(BidFeeFor(S.cfg, "q1", Tot(P(2), 2)))), "b1", "base",
                          BidFeeFor(S.cfg, "q1", Tot(P(2), 2)), P(2), "q1", Tot(P(2), 2), 2)}
BySender(S) ==
  UNION {
       {RApproveAsk(who, Coins1("base", 2), "a1", "base", 2)}
  \cup {RReverse(k, who, NoFunds, "a1", NoSize) : k \in {"cancel_ask", "expire_ask", "reject_ask"}}
  \cup {RReverse("reject_ask", who, NoFunds, "a1", 1)}
  \cup {RReverse(k, who, NoFunds, "b1", NoSize) : k \in {"cancel_bid", "expire_bid", "reject_bid"}}
  \cup {RReverse("reject_bid", who, NoFunds, "b1", 1)}
  \cup {RMatch(who, NoFunds, "a1", "b1", p, s) : p \in {P(1), P(2)}, s \in {1, 2}}
  \cup {RModify(who, NoFunds, a, e, NoDec, NoStr, NoDec, NoStr, NoSeq, NoSeq)
          : a \in {NoSeq, Some(C.approvers2), Some(C.approvers)}, e \in {NoSeq, Some(C.executors2), Some(C.executors)}}
  : who \in C.senders}

DoInstantiate == ~st.cfg.set /\ Step(RInstantiate(CfgOf(C)))
DoCreateAsk   == st.cfg.set /\ \E r \in AskReqs : Step(r)
DoCreateBid   == st.cfg.set /\ \E r \in BidReqs(st) : Step(r)
DoBySender    == st.cfg.set /\ \E r \in BySender(st) : Step(r)

Next == DoInstantiate \/ DoCreateAsk \/ DoCreateBid \/ DoBySender
=============================================================================
