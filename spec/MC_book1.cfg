INIT Init
NEXT Next
VIEW View
CHECK_DEADLOCK FALSE
INVARIANT StateInv
INVARIANT ExitInv
ACTION_CONSTRAINT CheckAndEmit
CONSTANTS
  Scenario = "book1"
  Tier = "quick"
  Native = TRUE
  Frozen = TRUE
  CanonIds = {"a1", "b1"}
  LegacyIds = {"a1L", "b1L"}
  ValidAddrs = {"seller1", "buyer1", "appr1", "exec1", "askfee1", "bidfee1", "stranger"}
  VersPre = {}
  VersOld = {}
  VersWin = {}
  VersNew = {"1.0.0"}
