------------------------------ MODULE MC_book1 ------------------------------
(* Scenario book1: the full life cycle of one ask key and one bid key. *)
EXTENDS AtsMC

CONSTANT Tier       \* "quick" or "thorough"

P(k) == Dec(k * SCALE, "plain")

Cfgs ==
  LET mk(inc, af, bf) ==
        InstMsg("ats", "base", <<"cv1">>, <<"q1">>, <<"appr1">>, <<"exec1">>, af, bf, <<>>, <<>>, 0, inc)
      AF == FeeInfo("askfee1", Dec(500000, "plain"))     \* 0.5
      BF == FeeInfo("bidfee1", Dec(250000, "plain"))     \* 0.25
  IN IF Tier = "quick" THEN {mk(2, AF, BF), mk(1, NoFeeInfo, NoFeeInfo)}
     ELSE {mk(i, a, b) : i \in {1, 2}, a \in {NoFeeInfo, AF}, b \in {NoFeeInfo, BF}}

Envs == {[marker |-> [d \in {"base", "cv1", "q1"} |-> "coin"], attrs |-> <<>>]}

MaxSize == 4
Sizes(S) == {s \in 1..MaxSize : s % S.cfg.inc = 0}
Prices == {P(1), P(2), P(3)}

Init == /\ st = EmptyState
        /\ cenv \in Envs
        /\ act = NoAct

AskReqs(S) ==
  {RCreateAsk("seller1", Coins1(b, s), "a1", b, "q1", p, s) : b \in {"base", "cv1"}, p \in {P(1), P(2)}, s \in Sizes(S)}
Tot(p, s) == (p.n * s) \div SCALE
BidReqs(S) ==
  {RCreateBid("buyer1", Coins1("q1", Tot(p, s) + FeeAmt(BidFeeFor(S.cfg, "q1", Tot(p, s)))),
              "b1", "base", BidFeeFor(S.cfg, "q1", Tot(p, s)), p, "q1", Tot(p, s), s)
     : p \in Prices, s \in Sizes(S)}
ApproveReqs(S) ==
  IF "a1" \in DOMAIN S.asks
  THEN {RApproveAsk(who, Coins1("base", S.asks["a1"].size), "a1", "base", S.asks["a1"].size) : who \in {"appr1", "exec1"}}
  ELSE {RApproveAsk("appr1", Coins1("base", 2), "a1", "base", 2)}
ReverseReqs(S) ==
       {RReverse("cancel_ask", who, NoFunds, "a1", NoSize) : who \in {"seller1", "exec1"}}
  \cup {RReverse("expire_ask", who, NoFunds, "a1", NoSize) : who \in {"seller1", "exec1"}}
  \cup {RReverse("reject_ask", "exec1", NoFunds, "a1", s) : s \in {NoSize} \cup 1..(MaxSize + 1)}
  \cup {RReverse("cancel_bid", who, NoFunds, "b1", NoSize) : who \in {"buyer1", "exec1"}}
  \cup {RReverse("expire_bid", who, NoFunds, "b1", NoSize) : who \in {"buyer1", "exec1"}}
  \cup {RReverse("reject_bid", "exec1", NoFunds, "b1", s) : s \in {NoSize} \cup 1..(MaxSize + 1)}
MatchReqs(S) ==
       {RMatch("exec1", NoFunds, "a1", "b1", p, s) : p \in Prices, s \in 1..(MaxSize + 1)}
  \cup {RMatch("exec1", NoFunds, "a1", "b1", Dec(k * SCALE, sp), 1) : k \in 1..3, sp \in {"t0", "lead0"}}
  \cup {RMatch("seller1", NoFunds, "a1", "b1", P(1), 1)}
QueryReqs(S) ==
       {RQuery("query_ask", i) : i \in {"a1", "a1L", "a1T", "b1"}}
  \cup {RQuery("query_bid", i) : i \in {"b1", "b1L", "b1T", "a1"}}
  \cup {RQuery("query_cfg", ""), RQuery("query_ver", "")}

DoInstantiate == ~st.cfg.set /\ \E m \in Cfgs : Step(RInstantiate(m))
DoCreateAsk   == st.cfg.set /\ \E r \in AskReqs(st) : Step(r)
DoCreateBid   == st.cfg.set /\ \E r \in BidReqs(st) : Step(r)
DoApprove     == st.cfg.set /\ \E r \in ApproveReqs(st) : Step(r)
DoReverse     == st.cfg.set /\ \E r \in ReverseReqs(st) : Step(r)
DoMatch       == st.cfg.set /\ \E r \in MatchReqs(st) : Step(r)
DoQuery       == st.cfg.set /\ \E r \in QueryReqs(st) : Step(r)

Next == DoInstantiate \/ DoCreateAsk \/ DoCreateBid \/ DoApprove \/ DoReverse \/ DoMatch \/ DoQuery
Spec == Init /\ [][Next]_vars
=============================================================================
