------------------------------ MODULE MC_conv2 ------------------------------
(* Scenario conv2: SEVERAL convertible denominations and several approvers at once.        *)
(* Two convertible asks (cv1 by seller1, cv2 by seller2) and a plain one, approved by two   *)
(* different approvers with base of different amounts, next to two bids; marker tables in   *)
(* which base, cv1 and cv2 have pairwise different types.  Every payout has to go to the    *)
(* right one of {seller, approver} in the right one of {base, cv1, cv2} with the mechanism   *)
(* of that very denomination; an ask is approved only in the base denomination, only once,  *)
(* and approving one ask never touches the other.                                           *)
EXTENDS AtsMC

CONSTANT Tier

P(k) == Dec(k * SCALE, "plain")

AF == FeeInfo("askfee1", Dec(500000, "plain"))     \* 0.5
BF == FeeInfo("bidfee1", Dec(250000, "plain"))     \* 0.25
Cfgs == IF Tier = "quick"
        THEN {InstMsg("ats", "base", <<"cv1", "cv2">>, <<"q1">>, <<"appr1", "appr2">>, <<"exec1">>, NoFeeInfo, BF, <<>>, <<>>, 0, 1)}
        ELSE {InstMsg("ats", "base", <<"cv1", "cv2">>, <<"q1">>, <<"appr1", "appr2">>, <<"exec1">>, a, BF, <<>>, <<>>, 0, 1)
                : a \in {NoFeeInfo, AF}}

Denoms == {"base", "cv1", "cv2", "q1"}
Table(kb, k1, k2, kq) == [marker |-> [d \in Denoms |-> CASE d = "base" -> kb [] d = "cv1" -> k1 [] d = "cv2" -> k2 [] OTHER -> kq],
                          attrs |-> <<>>]
Envs == IF Tier = "quick"
        THEN {Table("coin", "restricted", "coin", "coin"), Table("restricted", "coin", "restricted", "coin")}
        ELSE {Table(kb, k1, k2, "coin") : kb \in {"coin", "restricted"}, k1 \in {"coin", "restricted"}, k2 \in {"coin", "restricted"}}

Init == /\ st = EmptyState
        /\ cenv \in Envs
        /\ act = NoAct

Tot(p, s) == (p.n * s) \div SCALE
\* funds as the CURRENT marker type of the denomination demands (restricted: none attached)
Attach(d, amt) == IF cenv.marker[d] = "restricted" THEN NoFunds ELSE Coins1(d, amt)

\* a1: 2 x cv1 by seller1; a2: 3 x cv2 by seller2; a3 (thorough): 2 x base by seller1
AskSpec == [a1 |-> [owner |-> "seller1", d |-> "cv1", s |-> 2],
            a2 |-> [owner |-> "seller2", d |-> "cv2", s |-> 3]]
AskReqs ==
  {RCreateAsk(AskSpec[i].owner, Attach(AskSpec[i].d, AskSpec[i].s), i, AskSpec[i].d, "q1", P(1), AskSpec[i].s) : i \in {"a1", "a2"}}
  \cup (IF Tier = "quick" THEN {} ELSE {RCreateAsk("seller1", Attach("base", 2), "a1", "base", "q1", P(1), 2)})
BidReqs(S) ==
  {RCreateBid("buyer1", Attach("q1", Tot(P(2), s) + FeeAmt(BidFeeFor(S.cfg, "q1", Tot(P(2), s)))), i, "base",
              BidFeeFor(S.cfg, "q1", Tot(P(2), s)), P(2), "q1", Tot(P(2), s), s)
     : <<i, s>> \in (IF Tier = "quick" THEN {<<"b1", 2>>} ELSE {<<"b1", 2>>, <<"b2", 3>>})}
\* approvals: the right size in base by either approver; the ask's own convertible denomination or the OTHER one
\* offered as "base"; the other ask's size
ApproveReqs ==
       {RApproveAsk(who, Attach("base", AskSpec[i].s), i, "base", AskSpec[i].s) : who \in {"appr1", "appr2"}, i \in {"a1", "a2"}}
  \cup {RApproveAsk("appr1", Attach(d, AskSpec[i].s), i, d, AskSpec[i].s) : i \in {"a1", "a2"}, d \in {"cv1", "cv2"}}
  \cup {RApproveAsk("appr2", Attach("base", 5 - AskSpec[i].s), i, "base", 5 - AskSpec[i].s) : i \in {"a1", "a2"}}
ReverseReqs ==
       {RReverse("cancel_ask", AskSpec[i].owner, NoFunds, i, NoSize) : i \in {"a1", "a2"}}
  \cup {RReverse("cancel_ask", "seller2", NoFunds, "a1", NoSize)}
  \cup {RReverse("expire_ask", "exec1", NoFunds, i, NoSize) : i \in {"a1", "a2"}}
  \cup {RReverse("reject_ask", "exec1", NoFunds, i, 1) : i \in {"a1", "a2"}}
  \cup {RReverse("cancel_bid", "buyer1", NoFunds, "b1", NoSize), RReverse("reject_bid", "exec1", NoFunds, "b1", 1)}
MatchReqs == {RMatch("exec1", NoFunds, a, b, p, s) : a \in {"a1", "a2"}, b \in (IF Tier = "quick" THEN {"b1"} ELSE {"b1", "b2"}),
                                                      p \in {P(1), P(2)}, s \in {1, 2, 3}}
QueryReqs == {RQuery("query_ask", i) : i \in {"a1", "a2"}}

DoInstantiate == ~st.cfg.set /\ \E m \in Cfgs : Step(RInstantiate(m))
DoCreateAsk   == st.cfg.set /\ \E r \in AskReqs : Step(r)
DoCreateBid   == st.cfg.set /\ \E r \in BidReqs(st) : Step(r)
DoApprove     == st.cfg.set /\ \E r \in ApproveReqs : Step(r)
DoReverse     == st.cfg.set /\ \E r \in ReverseReqs : Step(r)
DoMatch       == st.cfg.set /\ \E r \in MatchReqs : Step(r)
DoQuery       == st.cfg.set /\ \E r \in QueryReqs : Step(r)

Next == DoInstantiate \/ DoCreateAsk \/ DoCreateBid \/ DoApprove \/ DoReverse \/ DoMatch \/ DoQuery
=============================================================================
