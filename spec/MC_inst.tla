------------------------------- MODULE MC_inst -------------------------------
(* Scenario inst: instantiation (C13).                                                   *)
(* Family A (fields): every subset of empty name / base / quote list / executor list,     *)
(*   approvers empty or not, invalid addresses, each fee pair absent / empty pair /       *)
(*   rate only / account only / unparsable rate / invalid address / valid.                *)
(* Family B (numeric, within TLC's integers): every precision 0..19 against increments    *)
(*   around each power of ten up to 10^9; larger increments are covered by MC_instbig.    *)
(* After an accepted instantiation the configuration and version are read back by the     *)
(* queries.                                                                               *)
EXTENDS AtsMC

CONSTANT Tier

R(n, sp) == Dec(n * 100, sp)            \* a rate given in units of 0.0001

PairFamily(acct) == {
  <<NoDec, NoStr>>, <<Some(R(0, "bad_empty")), Some("")>>, <<Some(R(2500, "plain")), NoStr>>, <<NoDec, Some(acct)>>,
  <<Some(R(0, "bad_word")), Some(acct)>>, <<Some(R(2500, "plain")), Some("BAD")>>, <<Some(R(2500, "plain")), Some(acct)>>,
  <<Some(R(2500, "t0")), Some(acct)>>, <<Some(R(0, "bad_empty")), Some(acct)>>, <<Some(R(2500, "plain")), Some("")>>,
  <<Some(R(-2500, "plain")), Some(acct)>>, <<Some(Dec(1250, "plain")), Some(acct)>>, <<Some(Dec(625, "t0")), Some(acct)>>, <<Some(R(2500, "bad_space")), Some(acct)>>, <<Some(R(2500, "bad_tspace")), Some(acct)>> }

Msg(name, base, quotes, approvers, executors, ap, bp, prec, inc) ==
  [name |-> name, base |-> base, convs |-> <<"cv1">>, quotes |-> quotes, approvers |-> approvers, executors |-> executors,
   askfee_rate |-> ap[1], askfee_acct |-> ap[2], bidfee_rate |-> bp[1], bidfee_acct |-> bp[2],
   askattrs |-> <<"kyc">>, bidattrs |-> <<>>, prec |-> prec, inc |-> inc]

Valid == <<Some(R(2500, "plain")), Some("askfee1")>>
None2 == <<NoDec, NoStr>>

FamilyA ==
  {Msg(n, b, q, a, e, ap, bp, 0, 1)
     : n \in {"", "ats"}, b \in {"", "base"}, q \in {<<>>, <<"q1", "q2">>},
       a \in {<<>>, <<"appr1">>, <<"appr1", "BAD">>}, e \in {<<>>, <<"exec1">>, <<"exec1", "x">>},
       ap \in PairFamily("askfee1"), bp \in IF Tier = "quick" THEN {None2, Valid, <<NoDec, Some("bidfee1")>>} ELSE PairFamily("bidfee1")}

Incs(k) == {Pow10(k), 2 * Pow10(k)} \cup (IF k < 9 THEN {Pow10(k) + 1, (15 * Pow10(k)) \div 10} ELSE {1000000001})
                \cup (IF k > 0 THEN {Pow10(k) - 1, Pow10(k) + Pow10(k - 1)} ELSE {0})
FamilyB ==
  {Msg("ats", "base", <<"q1">>, <<"appr1">>, <<"exec1">>, None2, Valid, p, i)
     : p \in 0..19, i \in UNION {Incs(k) : k \in 0..9}}

\* Family C (list shapes): duplicates, one element, none, the base denomination among the convertible or the quote
\* denominations, one account in both role lists - all coherent, so all accepted and stored as given
FamilyC ==
  {[name |-> "ats", base |-> "base", convs |-> cv, quotes |-> q, approvers |-> a, executors |-> e,
    askfee_rate |-> NoDec, askfee_acct |-> NoStr, bidfee_rate |-> Valid[1], bidfee_acct |-> Some("bidfee1"),
    askattrs |-> aa, bidattrs |-> ba, prec |-> 0, inc |-> 1]
     : cv \in {<<>>, <<"cv1", "cv1">>, <<"base">>, <<"cv1", "cv2", "base">>},
       q \in {<<"q1">>, <<"q1", "q1">>, <<"base">>, <<"q2", "q1">>},
       a \in {<<>>, <<"appr1", "appr1">>, <<"appr1", "exec1">>},
       e \in {<<"exec1", "exec1">>, <<"exec2", "exec1">>, <<"exec1", "appr1">>},
       aa \in {<<>>, <<"kyc", "kyc">>, <<"kyc", "acc">>}, ba \in {<<>>, <<"kyc">>}}

Envs == {[marker |-> <<>>, attrs |-> <<>>]}

Init == /\ st = EmptyState
        /\ cenv \in Envs
        /\ act = NoAct

DoInstantiate == ~st.cfg.set /\ \E m \in FamilyA \cup FamilyB \cup FamilyC : Step(RInstantiate(m))
DoQuery       == \E r \in {RQuery("query_cfg", ""), RQuery("query_ver", "")} : Step(r)
\* requests before instantiation are refused
DoEarly       == ~st.cfg.set /\ \E r \in {RReverse("cancel_ask", "seller1", NoFunds, "a1", NoSize), ModifyNothing("exec1"),
                                          RCreateAsk("seller1", Coins1("base", 1), "a1", "base", "q1", Dec(10000, "plain"), 1),
                                          RMigrate(MigrateNothing)} : Step(r)

Next == DoInstantiate \/ DoQuery \/ DoEarly
=============================================================================
