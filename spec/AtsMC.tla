------------------------------- MODULE AtsMC -------------------------------
(* Shared machinery of the model-checking scenarios: evaluation of the       *)
(* property clauses on every state and transition, and emission of every     *)
(* transition as one JSON record (replayed on the implementation).           *)
EXTENDS AtsSM, AtsProps, Json

CONSTANT Scenario,
         Frozen,     \* TRUE in scenarios where no migration overrides a fee under open bids
         Native      \* TRUE in scenarios where every bid was created by this contract version

View == <<st, cenv>>

\* Only the components of the post-state that differ from the pre-state are written out.
Changed(S, T) == {c \in DOMAIN S : S[c] # T[c]}
Slim(S, o)    == [resp |-> o.resp, post |-> [c \in Changed(S, o.post) |-> o.post[c]]]

\* (M) every transition of the model satisfies every step clause of every property
\* (steps of the environment alone carry no request: nothing to judge, nothing to emit)
IsRequest == act'.req.kind # "envchange"

StepOk ==
    ~IsRequest \/
    LET v == StepClauses(st, cenv, act'.req, act'.resp, st')
    IN Assert(v = {}, <<"CLAUSE-VIOLATION", v, "request", act'.req, "state", st>>)

\* Evaluated by TLC on every generated transition (ACTION_CONSTRAINT), including
\* stuttering ones and ones whose target state was seen before.
Emit ==
    ~IsRequest \/
    PrintT(ToJson([scen |-> Scenario, native |-> Native, from |-> st, env |-> cenv, req |-> act'.req,
                   outs |-> {Slim(st, o) : o \in act'.outs}]))

CheckAndEmit == StepOk /\ Emit
CheckOnly    == StepOk

\* (M) every reachable state satisfies every state clause
StateInv == StateClauses(st, Frozen, Native) = {}

\* C06 as an enabledness property over the pure Outcomes operator: in every reachable state,
\* for every open order, the owner's cancel and an executor's expire are accepted
\* (what they pay and that the order is gone is judged by the step clauses of those transitions)
ExitInv ==
    (st.cfg.set /\ Native) =>
      /\ \A k \in DOMAIN st.asks :
           /\ \A o \in Outcomes(st, cenv, RReverse("cancel_ask", st.asks[k].owner, NoFunds, k, NoSize)) : o.resp.ok
           /\ \A e \in Range(st.cfg.executors) :
                \A o \in Outcomes(st, cenv, RReverse("expire_ask", e, NoFunds, k, NoSize)) : o.resp.ok
      /\ \A k \in DOMAIN st.bids : st.bids[k].fmt = "v3" =>
           /\ \A o \in Outcomes(st, cenv, RReverse("cancel_bid", st.bids[k].owner, NoFunds, k, NoSize)) : o.resp.ok
           /\ \A e \in Range(st.cfg.executors) :
                \A o \in Outcomes(st, cenv, RReverse("expire_bid", e, NoFunds, k, NoSize)) : o.resp.ok
=============================================================================
