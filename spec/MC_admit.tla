------------------------------ MODULE MC_admit ------------------------------
(* Scenario admit: admission of asks and bids (C07) and approval (C08).  A well-formed   *)
(* request and every single-field mutation of it, against several configurations         *)
(* (precision, increment, fee rate incl. one that rounds to zero, required attributes),  *)
(* marker tables (ordinary / restricted) and book states (empty, id in use, other order  *)
(* present).                                                                             *)
EXTENDS AtsMC

CONSTANT Tier

D(n) == Dec(n, "plain")

\* configurations: <<prec, inc, a valid price, a price with one decimal too many, bid fee, ask attrs, bid attrs>>
Cfgs == {
  \* precision 0; bid fee 0.25 of a total of 10 is an exact .5 tie; the contract's own base denomination is
  \* also listed as convertible (instantiation allows it): asks in it are plain all the same
  [m |-> InstMsg("ats", "base", <<"cv1", "base">>, <<"q1", "q2">>, <<"appr1">>, <<"exec1">>, NoFeeInfo,
                 FeeInfo("bidfee1", D(250000)), <<>>, <<>>, 0, 1),
   price |-> D(50000), fine |-> D(15000), size |-> 2],
  [m |-> InstMsg("ats", "base", <<"cv1">>, <<"q1", "q2">>, <<"appr1">>, <<"exec1">>, NoFeeInfo,
                 FeeInfo("bidfee1", D(250000)), <<"kyc">>, <<"kyc", "acc">>, 1, 10),
   price |-> D(15000), fine |-> D(12500), size |-> 20],
  [m |-> InstMsg("ats", "base", <<"cv1">>, <<"q1", "q2">>, <<"appr1">>, <<"exec1">>, NoFeeInfo,
                 FeeInfo("bidfee1", D(100)), <<>>, <<"kyc">>, 2, 100),
   price |-> D(1200), fine |-> D(1250) , size |-> 100] }
\* third configuration: rate 0.0001, price 0.12: total 12, fee rounds to 0; price 0.125 has 3 decimals

Attrs == [a \in {"seller1", "buyer1", "stranger"} |->
            CASE a = "seller1" -> <<"kyc">> [] a = "buyer1" -> <<"acc", "kyc">> [] OTHER -> <<"acc">>]
Envs == {[marker |-> [d \in {"base", "cv1", "q1", "q2"} |-> IF d \in r THEN "restricted" ELSE "coin"], attrs |-> Attrs, c |-> c]
           : r \in {{}, {"base", "q1"}}, c \in Cfgs}

Init == /\ st = EmptyState
        /\ cenv \in Envs
        /\ act = NoAct

K == cenv.c
Tot(p, s) == (p.n * s) \div SCALE
Rst(d) == Restricted(cenv, d)
Funds(d, amt) == IF Rst(d) THEN NoFunds ELSE Coins1(d, amt)

\* ---- asks
AskBase(id, base) == RCreateAsk("seller1", Funds(base, K.size), id, base, "q1", K.price, K.size)
AskMut(r) ==
  {r}
  \cup {[r EXCEPT !.funds = f] : f \in {NoFunds, Coins1(r.base, r.size), Coins1(r.base, r.size + 1), Coins1(r.base, r.size - 1),
                                       Coins1("q1", r.size), Coins1(r.base, r.size) \o Coins1("q1", 1),
                                       Coins1(r.base, r.size - 1) \o Coins1(r.base, 1)}}
  \cup {[r EXCEPT !.price = p] : p \in {D(0), D(-K.price.n), Dec(0, "bad_word"), Dec(K.price.n, "bad_exp"),
                                       Dec(0, "bad_empty"), Dec(K.price.n, "bad_space"), K.fine,
                                       Dec(K.price.n, "t0"), Dec(K.price.n, "lead0"), Dec(K.price.n, "plus")}}
  \cup {[r EXCEPT !.size = s, !.funds = Funds(r.base, s)] : s \in {0, K.size + 1, K.size \div 2, 2 * K.size}}
  \cup {[r EXCEPT !.base = b, !.funds = Funds(b, r.size)] : b \in {"junk", "", "q1"}}
  \cup {[r EXCEPT !.quote = q] : q \in {"q2", "q9", "", "base"}}
  \cup {[r EXCEPT !.sender = s] : s \in {"stranger", "buyer1"}}
  \cup {[r EXCEPT !.id = i] : i \in {"a1U", "a1L", "a1B", "a1R", "a1T", "a1Z", ""}}
AskIds == IF Tier = "quick" THEN {"a1"} ELSE {"a1", "a2"}
BidIds == IF Tier = "quick" THEN {"b1"} ELSE {"b1", "b2"}
\* the second id (thorough tier) only supplies a neighbour on the same side of the book
AskReqs == UNION {AskMut(AskBase("a1", b)) : b \in {"base", "cv1"}} \cup {AskBase(id, "base") : id \in AskIds \ {"a1"}}

\* ---- bids
Due(total) == BidFeeFor(st.cfg, "q1", total)
BidBase(id) ==
  LET t == Tot(K.price, K.size)  fee == Due(t)
  IN RCreateBid("buyer1", Funds("q1", t + FeeAmt(fee)), id, "base", fee, K.price, "q1", t, K.size)
BidMut(r) ==
  LET need == r.qsize + FeeAmt(r.fee) IN
  {r}
  \cup {[r EXCEPT !.funds = f] : f \in {NoFunds, Coins1("q1", need), Coins1("q1", need + 1), Coins1("q1", need - 1),
                                       Coins1("q2", need), Coins1("q1", need) \o Coins1("q2", 1), Coins1("q1", r.qsize)}}
  \cup {[r EXCEPT !.price = p] : p \in {D(0), D(-K.price.n), Dec(0, "bad_word"), Dec(0, "bad_empty"), K.fine,
                                       Dec(K.price.n, "t0"), Dec(K.price.n, "lead0")}}
  \cup {[r EXCEPT !.size = s] : s \in {0, K.size + 1, 2 * K.size}}
  \cup {[r EXCEPT !.size = 2 * K.size, !.qsize = 2 * r.qsize, !.fee = Due(2 * r.qsize),
                  !.funds = Funds("q1", 2 * r.qsize + FeeAmt(Due(2 * r.qsize)))]}
  \cup {[r EXCEPT !.qsize = q] : q \in {0, r.qsize + 1, r.qsize - 1}}
  \cup {[r EXCEPT !.fee = f] : f \in {NoFee, SomeFee(0, "q1"), SomeFee(FeeAmt(r.fee) + 1, "q1"),
                                     SomeFee(FeeAmt(r.fee), "q2"), SomeFee(FeeAmt(r.fee), "base")}}
  \cup {[r EXCEPT !.fee = SomeFee(FeeAmt(r.fee) + 1, "q1"), !.funds = Funds("q1", need + 1)]}
  \cup {[r EXCEPT !.base = b] : b \in {"cv1", "junk", ""}}
  \cup {[r EXCEPT !.quote = q, !.funds = Funds(q, need),
                  !.fee = IF r.fee.some THEN SomeFee(r.fee.amt, q) ELSE NoFee] : q \in {"q2", "q9", ""}}
  \cup {[r EXCEPT !.sender = s] : s \in {"stranger", "seller1"}}
  \cup {[r EXCEPT !.id = i] : i \in {"b1U", "b1L", "b1T", "b1Z", ""}}
BidReqs == BidMut(BidBase("b1")) \cup {BidBase(id) : id \in BidIds \ {"b1"}}

\* ---- approval of the convertible ask (C08): every sender, wrong size / base / funds, repeated
ApproveReqs(S) ==
  UNION {
    LET sz == IF id \in DOMAIN S.asks THEN S.asks[id].size ELSE K.size
        r == RApproveAsk("appr1", Funds("base", sz), id, "base", sz)
    IN {r}
       \cup {[r EXCEPT !.sender = s] : s \in {"exec1", "seller1", "stranger"}}
       \cup {[r EXCEPT !.size = s, !.funds = Funds("base", s)] : s \in {sz + 1, sz - 1, 0}}
       \cup {[r EXCEPT !.funds = f] : f \in {NoFunds, Coins1("base", sz), Coins1("base", sz + 1), Coins1("cv1", sz)}}
       \cup {[r EXCEPT !.base = b, !.funds = Funds(b, sz)] : b \in {"cv1", "q1", "", "BASE"}}
       \cup {[r EXCEPT !.id = i] : i \in {"a1L", "a1T"}}
    : id \in {"a1"}}

\* owners leave again, so that the empty book is revisited
ExitReqs == {RReverse("cancel_ask", "seller1", NoFunds, i, NoSize) : i \in AskIds}
       \cup {RReverse("cancel_bid", "buyer1", NoFunds, i, NoSize) : i \in BidIds}

\* quick tier: at most one order per side on the book
Small(S) == Tier = "thorough" \/ (Cardinality(DOMAIN S.asks) <= 1 /\ Cardinality(DOMAIN S.bids) <= 1)

DoInstantiate == ~st.cfg.set /\ Step(RInstantiate(K.m))
DoCreateAsk   == st.cfg.set /\ (\E r \in AskReqs : Step(r)) /\ Small(st')
DoCreateBid   == st.cfg.set /\ (\E r \in BidReqs : Step(r)) /\ Small(st')
DoApprove     == st.cfg.set /\ \E r \in ApproveReqs(st) : Step(r)
DoExit        == st.cfg.set /\ \E r \in ExitReqs : Step(r)
\* the admitted pair is matched (whatever spelling each price was admitted in)
DoMatch       == st.cfg.set /\ \E r \in {RMatch("exec1", NoFunds, "a1", "b1", p, K.size) : p \in {K.price, Dec(K.price.n, "t0")}} : Step(r)
DoQuery       == \E r \in {RQuery("query_cfg", ""), RQuery("query_ver", ""), RQuery("query_ask", "a1"), RQuery("query_bid", "b1")} : Step(r)

Next == DoInstantiate \/ DoCreateAsk \/ DoCreateBid \/ DoApprove \/ DoExit \/ DoMatch \/ DoQuery
=============================================================================
