------------------------------ MODULE MC_feebig ------------------------------
(* Scenario feebig: the pro-rata fee of ONE bid with a quote in the hundreds (fee x quote    *)
(* above 10^4, where precision slips in the ratio start to matter), through every sequence   *)
(* of small and large fills (at the bid's price and at an improved price) and partial        *)
(* rejects in steps of 1, 7, 50 and 100 units: every remaining amount of the bid is visited  *)
(* and the fee still held is compared with the exact pro-rata value at each.                 *)
EXTENDS AtsMC

CONSTANT Tier

P(k) == Dec(k * SCALE, "plain")
Rate(n) == Dec(n, "plain")
Rates == IF Tier = "quick" THEN {Rate(500000), Rate(100000)} ELSE {Rate(500000), Rate(100000), Rate(333000)}
Cfgs == {InstMsg("ats", "base", <<>>, <<"q1">>, <<"appr1">>, <<"exec1">>, NoFeeInfo, FeeInfo("bidfee1", r), <<>>, <<>>, 0, 1)
           : r \in Rates}

Envs == {[marker |-> [d \in {"base", "q1"} |-> "coin"], attrs |-> <<>>]}

Init == /\ st = EmptyState
        /\ cenv \in Envs
        /\ act = NoAct

BidSizes == IF Tier = "quick" THEN {171, 339} ELSE {171, 339, 1003}
BidPrices == IF Tier = "quick" THEN {P(1)} ELSE {P(1), P(2)}
Steps == {1, 7, 50, 100}
Tot(p, s) == (p.n * s) \div SCALE

BidReqs(S) ==
  IF DOMAIN S.bids # {} \/ DOMAIN S.asks # {} THEN {}
  ELSE {RCreateBid("buyer1", Coins1("q1", Tot(p, s) + FeeAmt(BidFeeFor(S.cfg, "q1", Tot(p, s)))), "b1", "base",
                   BidFeeFor(S.cfg, "q1", Tot(p, s)), p, "q1", Tot(p, s), s) : p \in BidPrices, s \in BidSizes}
\* an ask exactly as large as the next fill, at price 1 (the bid's price, or an improvement on 2)
AskReqs(S) ==
  IF "b1" \in DOMAIN S.bids /\ DOMAIN S.asks = {}
  THEN {RCreateAsk("seller1", Coins1("base", s), "a1", "base", "q1", P(1), s) : s \in Steps} ELSE {}
OtherReqs(S) ==
       {RReverse("reject_bid", "exec1", NoFunds, "b1", s) : s \in Steps \cup {NoSize}}
  \cup {RReverse("cancel_bid", "buyer1", NoFunds, "b1", NoSize)}
  \cup (IF "b1" \in DOMAIN S.bids /\ "a1" \in DOMAIN S.asks
        THEN {RMatch("exec1", NoFunds, "a1", "b1", p, S.asks["a1"].size) : p \in {P(1), S.bids["b1"].price}}
        ELSE {})
  \cup {RReverse("cancel_ask", "seller1", NoFunds, "a1", NoSize)}

DoInstantiate == ~st.cfg.set /\ \E m \in Cfgs : Step(RInstantiate(m))
DoCreateBid   == st.cfg.set /\ \E r \in BidReqs(st) : Step(r)
DoCreateAsk   == st.cfg.set /\ \E r \in AskReqs(st) : Step(r)
DoOther       == st.cfg.set /\ \E r \in OtherReqs(st) : Step(r)

Next == DoInstantiate \/ DoCreateBid \/ DoCreateAsk \/ DoOther
=============================================================================
