------------------------------ MODULE AtsTrace ------------------------------
(***************************************************************************)
(* Judge for calls observed on the implementation (code -> spec).          *)
(*                                                                         *)
(* The harness writes one JSON record per real call:                        *)
(*   pre, env, req, resp (what the code answered), post (the storage        *)
(*   projected after the call), chained / reset flags, the driver's ledger. *)
(* The judge follows the OBSERVED state and evaluates, for each record,     *)
(*   - every step clause of AtsProps on (pre, env, req, resp, post),         *)
(*   - every state clause on post,                                           *)
(*   - Drift: whether the observation is one of Outcomes(pre, env, req),     *)
(*   - for chained histories: the attribute-driven shadow book and the      *)
(*     cumulative ledger against the observed book.                          *)
(* It does not stop at the first violation: each is printed with its line. *)
(***************************************************************************)
EXTENDS AtsSM, AtsProps, Json, IOUtils

VARIABLES l,        \* next line of the log
          sh,       \* shadow book kept from response attributes alone
          frozen    \* no migration has overridden the bid fee under the open bids

Log == ndJsonDeserialize(IOEnv.TRACE)

tvars == <<st, cenv, act, l, sh, frozen>>

MsgCount(s, m) == Cardinality({i \in DOMAIN s : s[i] = m})
SameBag(s, t) == Len(s) = Len(t) /\ \A m \in Range(s) \cup Range(t) : MsgCount(s, m) = MsgCount(t, m)

SameOutcome(o, rec) ==
    /\ o.resp.ok = rec.resp.ok
    /\ o.post = rec.post
    /\ rec.resp.ok =>
         /\ SameBag(o.resp.msgs, rec.resp.msgs)
         /\ \A k \in DOMAIN o.resp.attrs : k \in DOMAIN rec.resp.attrs /\ rec.resp.attrs[k] = o.resp.attrs[k]
         /\ o.resp.result = rec.resp.result

Drift(rec) == IF \E o \in Outcomes(rec.pre, rec.env, rec.req) : SameOutcome(o, rec) THEN {} ELSE {"DRIFT"}

\* cumulative ledger kept by the driver from the real fund movements
LedgerClause(rec) ==
    IF "ledger" \in DOMAIN rec
    THEN If(\A d \in DOMAIN rec.ledger \cup BookDenoms(rec.post) :
              Owed(rec.post, d) = (IF d \in DOMAIN rec.ledger THEN rec.ledger[d] ELSE 0), "C01.ledger")
    ELSE {}

(* Vacuity guard: how often the situations the clauses talk about actually occurred in the   *)
(* judged records.  Counted in TLC registers (the judge runs with one worker) and printed     *)
(* with the final verdict; the checks put the counts into their evidence.                     *)
TagNames == <<"match_accepted", "match_at_improved_price", "match_fee_rounding_tie", "match_closes_bid",
              "match_closes_ask", "match_convertible_ask", "match_with_ask_fee", "match_with_bid_fee",
              "reversal_partial", "reversal_full", "reversal_returns_fee", "approve_accepted",
              "create_accepted", "escrow_by_marker_pull", "refused_unauthorized_sender", "modify_accepted",
              "migrate_accepted", "migrate_converts_old_bids", "query_answered", "query_refused", "exit_probe",
              "payout_by_marker_transfer", "request_refused">>

TagsOf(rec) ==
  LET req == rec.req  resp == rec.resp  pre == rec.pre  post == rec.post
      ok == resp.ok
      m == ok /\ req.kind = "execute_match" /\ req.ask_id \in DOMAIN pre.asks /\ req.bid_id \in DOMAIN pre.bids
      b == pre.bids[req.bid_id]
      a == pre.asks[req.ask_id]
      rev == ok /\ req.kind \in RevAskKinds \cup RevBidKinds
  IN  (IF m THEN {"match_accepted"} ELSE {})
 \cup (IF m /\ req.price.n < b.price.n THEN {"match_at_improved_price"} ELSE {})
 \cup (IF m /\ b.fee.some /\ Cardinality(ProRataSet(b.fee.amt, RemQ(b) - Times(req.price, req.size), b.qamt)) > 1
       THEN {"match_fee_rounding_tie"} ELSE {})
 \cup (IF m /\ req.bid_id \notin DOMAIN post.bids THEN {"match_closes_bid"} ELSE {})
 \cup (IF m /\ req.ask_id \notin DOMAIN post.asks THEN {"match_closes_ask"} ELSE {})
 \cup (IF m /\ a.class = "ready" THEN {"match_convertible_ask"} ELSE {})
 \cup (IF m /\ "ask_fee" \in DOMAIN resp.attrs /\ resp.attrs["ask_fee"] > 0 THEN {"match_with_ask_fee"} ELSE {})
 \cup (IF m /\ "bid_fee" \in DOMAIN resp.attrs /\ resp.attrs["bid_fee"] > 0 THEN {"match_with_bid_fee"} ELSE {})
 \cup (IF rev /\ PartialGiven(req) THEN {"reversal_partial"} ELSE {})
 \cup (IF rev /\ ~PartialGiven(req) THEN {"reversal_full"} ELSE {})
 \cup (IF rev /\ req.kind \in RevBidKinds /\ Len(resp.msgs) > 1 THEN {"reversal_returns_fee"} ELSE {})
 \cup (IF ok /\ req.kind = "approve_ask" THEN {"approve_accepted"} ELSE {})
 \cup (IF ok /\ req.kind \in {"create_ask", "create_bid"} THEN {"create_accepted"} ELSE {})
 \cup (IF ok /\ req.kind \in {"create_ask", "create_bid", "approve_ask"} /\ resp.msgs # <<>> THEN {"escrow_by_marker_pull"} ELSE {})
 \cup (IF ~ok /\ req.kind \in {"execute_match", "expire_ask", "expire_bid", "reject_ask", "reject_bid", "modify_contract"}
          /\ pre.cfg.set /\ req.sender \notin Range(pre.cfg.executors) THEN {"refused_unauthorized_sender"} ELSE {})
 \cup (IF ok /\ req.kind = "modify_contract" THEN {"modify_accepted"} ELSE {})
 \cup (IF ok /\ req.kind = "migrate" THEN {"migrate_accepted"} ELSE {})
 \cup (IF ok /\ req.kind = "migrate" /\ \E k \in DOMAIN pre.bids : pre.bids[k].fmt = "v2" /\ k \in DOMAIN post.bids /\ post.bids[k].fmt = "v3"
       THEN {"migrate_converts_old_bids"} ELSE {})
 \cup (IF ok /\ IsQuery(req) THEN {"query_answered"} ELSE {})
 \cup (IF ~ok /\ IsQuery(req) THEN {"query_refused"} ELSE {})
 \cup (IF rec.probe /\ ~IsQuery(req) THEN {"exit_probe"} ELSE {})
 \cup (IF ok /\ \E i \in DOMAIN resp.msgs : resp.msgs[i].kind = "marker" /\ resp.msgs[i].from = Contract THEN {"payout_by_marker_transfer"} ELSE {})
 \cup (IF ~ok THEN {"request_refused"} ELSE {})

Count(rec) ==
  \A i \in DOMAIN TagNames : (TagNames[i] \in TagsOf(rec)) => TLCSet(i, TLCGet(i) + 1)

TraceInit ==
    /\ \A i \in DOMAIN TagNames : TLCSet(i, 0)
    /\ l = 1
    /\ st = EmptyState
    /\ cenv = [marker |-> <<>>, attrs |-> <<>>]
    /\ act = [req |-> [kind |-> "none"], outs |-> {}, resp |-> ErrResp(<<>>)]
    /\ sh = ShadowOf(EmptyState)
    /\ frozen = TRUE

Judge(rec) ==
    LET chained == rec.chained /\ ~rec.reset
        care == rec.dontcare = <<>>
        shNext == IF ~rec.chained THEN ShadowOf(rec.post)
                  ELSE IF rec.reset THEN ShadowOf(rec.post)
                  ELSE IF rec.probe THEN sh
                  ELSE IF rec.resp.ok /\ IsExecute(rec.req) THEN Observe(sh, rec.resp.attrs)
                  ELSE IF rec.resp.ok /\ rec.req.kind \in {"migrate", "instantiate"} THEN ShadowOf(rec.post)
                  ELSE sh
        frozenNext ==
            IF DOMAIN rec.post.bids = {} THEN TRUE
            ELSE IF rec.req.kind = "migrate" /\ rec.resp.ok /\ rec.post.cfg.bidfee # rec.pre.cfg.bidfee THEN FALSE
            ELSE IF ~rec.chained \/ rec.req.kind = "instantiate" THEN TRUE
            ELSE frozen
        v ==    (IF care THEN StepClauses(rec.pre, rec.env, rec.req, rec.resp, rec.post) ELSE {})
           \cup (IF care THEN StateClauses(rec.post, frozenNext /\ rec.chained, rec.native) ELSE {})
           \cup (IF care THEN Drift(rec) ELSE {})
           \cup (IF chained /\ ~rec.probe THEN If(rec.pre = st, "CHAIN.broken") ELSE {})
           \cup (IF rec.chained /\ ~rec.probe /\ care THEN If(shNext = ShadowOf(rec.post), "C17.shadow") ELSE {})
           \cup (IF rec.chained /\ ~rec.probe /\ care THEN LedgerClause(rec) ELSE {})
    IN /\ Count(rec)
       /\ (v # {} => PrintT(ToJson([judge |-> "viol", line |-> l, seq |-> rec.seq, src |-> rec.src, viol |-> v])))
       /\ st' = (IF rec.probe THEN st ELSE rec.post)
       /\ cenv' = rec.env
       /\ act' = [req |-> rec.req, outs |-> {}, resp |-> rec.resp]
       /\ sh' = shNext
       /\ frozen' = (IF rec.probe THEN frozen ELSE frozenNext)
       /\ l' = l + 1

TraceNext == l <= Len(Log) /\ Judge(Log[l])

TraceSpec == TraceInit /\ [][TraceNext]_tvars

\* every line was consumed
TraceDone ==
    LET n == TLCGet("stats").diameter - 1 IN
    /\ PrintT(ToJson([judge |-> "done", consumed |-> n, lines |-> Len(Log),
                       exercised |-> [i \in DOMAIN TagNames |-> <<TagNames[i], TLCGet(i)>>]]))
    /\ n = Len(Log)
=============================================================================
