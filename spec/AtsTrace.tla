------------------------------ MODULE AtsTrace ------------------------------
(***************************************************************************)
(* Judge for calls observed on the implementation (code -> spec).          *)
(*                                                                         *)
(* The harness writes one JSON record per real call:                        *)
(*   pre, env, req, resp (what the code answered), post (the storage        *)
(*   projected after the call), chained / reset flags, the driver's ledger. *)
(* The judge follows the OBSERVED state and evaluates, for each record,     *)
(*   - every step clause of AtsProps on (pre, env, req, resp, post),         *)
(*   - every state clause on post,                                           *)
(*   - Drift: whether the observation is one of Outcomes(pre, env, req),     *)
(*   - for chained histories: the attribute-driven shadow book and the      *)
(*     cumulative ledger against the observed book.                          *)
(* It does not stop at the first violation: each is printed with its line. *)
(***************************************************************************)
EXTENDS AtsSM, AtsProps, Json, IOUtils

VARIABLES l,        \* next line of the log
          sh,       \* shadow book kept from response attributes alone
          frozen    \* no migration has overridden the bid fee under the open bids

Log == ndJsonDeserialize(IOEnv.TRACE)

tvars == <<st, cenv, act, l, sh, frozen>>

MsgCount(s, m) == Cardinality({i \in DOMAIN s : s[i] = m})
SameBag(s, t) == Len(s) = Len(t) /\ \A m \in Range(s) \cup Range(t) : MsgCount(s, m) = MsgCount(t, m)

SameOutcome(o, rec) ==
    /\ o.resp.ok = rec.resp.ok
    /\ o.post = rec.post
    /\ rec.resp.ok =>
         /\ SameBag(o.resp.msgs, rec.resp.msgs)
         /\ \A k \in DOMAIN o.resp.attrs : k \in DOMAIN rec.resp.attrs /\ rec.resp.attrs[k] = o.resp.attrs[k]
         /\ o.resp.result = rec.resp.result

Drift(rec) == IF \E o \in Outcomes(rec.pre, rec.env, rec.req) : SameOutcome(o, rec) THEN {} ELSE {"DRIFT"}

\* cumulative ledger kept by the driver from the real fund movements
LedgerClause(rec) ==
    IF "ledger" \in DOMAIN rec
    THEN If(\A d \in DOMAIN rec.ledger \cup BookDenoms(rec.post) :
              Owed(rec.post, d) = (IF d \in DOMAIN rec.ledger THEN rec.ledger[d] ELSE 0), "C01.ledger")
    ELSE {}

TraceInit ==
    /\ l = 1
    /\ st = EmptyState
    /\ cenv = [marker |-> <<>>, attrs |-> <<>>]
    /\ act = [req |-> [kind |-> "none"], outs |-> {}, resp |-> ErrResp(<<>>)]
    /\ sh = ShadowOf(EmptyState)
    /\ frozen = TRUE

Judge(rec) ==
    LET chained == rec.chained /\ ~rec.reset
        care == rec.dontcare = <<>>
        shNext == IF ~rec.chained THEN ShadowOf(rec.post)
                  ELSE IF rec.reset THEN ShadowOf(rec.post)
                  ELSE IF rec.probe THEN sh
                  ELSE IF rec.resp.ok /\ IsExecute(rec.req) THEN Observe(sh, rec.resp.attrs)
                  ELSE IF rec.resp.ok /\ rec.req.kind \in {"migrate", "instantiate"} THEN ShadowOf(rec.post)
                  ELSE sh
        frozenNext ==
            IF DOMAIN rec.post.bids = {} THEN TRUE
            ELSE IF rec.req.kind = "migrate" /\ rec.resp.ok /\ rec.post.cfg.bidfee # rec.pre.cfg.bidfee THEN FALSE
            ELSE IF ~rec.chained \/ rec.req.kind = "instantiate" THEN TRUE
            ELSE frozen
        v ==    (IF care THEN StepClauses(rec.pre, rec.env, rec.req, rec.resp, rec.post) ELSE {})
           \cup (IF care THEN StateClauses(rec.post, frozenNext /\ rec.chained, rec.native) ELSE {})
           \cup (IF care THEN Drift(rec) ELSE {})
           \cup (IF chained /\ ~rec.probe THEN If(rec.pre = st, "CHAIN.broken") ELSE {})
           \cup (IF rec.chained /\ ~rec.probe /\ care THEN If(shNext = ShadowOf(rec.post), "C17.shadow") ELSE {})
           \cup (IF rec.chained /\ ~rec.probe /\ care THEN LedgerClause(rec) ELSE {})
    IN /\ (v # {} => PrintT(ToJson([judge |-> "viol", line |-> l, seq |-> rec.seq, src |-> rec.src, viol |-> v])))
       /\ st' = (IF rec.probe THEN st ELSE rec.post)
       /\ cenv' = rec.env
       /\ act' = [req |-> rec.req, outs |-> {}, resp |-> rec.resp]
       /\ sh' = shNext
       /\ frozen' = (IF rec.probe THEN frozen ELSE frozenNext)
       /\ l' = l + 1

TraceNext == l <= Len(Log) /\ Judge(Log[l])

TraceSpec == TraceInit /\ [][TraceNext]_tvars

\* every line was consumed
TraceDone ==
    LET n == TLCGet("stats").diameter - 1 IN
    /\ PrintT(ToJson([judge |-> "done", consumed |-> n, lines |-> Len(Log)]))
    /\ n = Len(Log)
=============================================================================
