----------------------------- MODULE AtsArith -----------------------------
(***************************************************************************)
(* Arithmetic core of the ATS order-book contract.                         *)
(*                                                                         *)
(* Amounts are integers.  A decimal (price, fee rate) is a record          *)
(*   [n |-> integer number of units of 1/SCALE, sp |-> spelling tag]       *)
(* The spelling tag says how the decimal string is written ("2", "2.0",    *)
(* "02", "+2", "2.", or one of the unparsable spellings); the contract     *)
(* stores the string verbatim, so the tag is part of the state, while all  *)
(* comparisons the contract makes are numeric (on n).                      *)
(***************************************************************************)
EXTENDS Integers, Sequences, FiniteSets, TLC, FiniteSetsExt

PMAXD == 4                       \* decimals carried by a Dec
SCALE == 10000                   \* 10^PMAXD

Pow10(k) == CASE k = 0 -> 1 [] k = 1 -> 10 [] k = 2 -> 100 [] k = 3 -> 1000
              [] k = 4 -> 10000 [] k = 5 -> 100000 [] k = 6 -> 1000000
              [] k = 7 -> 10000000 [] k = 8 -> 100000000 [] k = 9 -> 1000000000

GoodSp == {"plain", "t0", "lead0", "plus", "dot"}     \* spellings Decimal::from_str accepts
BadSp  == {"bad_empty", "bad_word", "bad_exp", "bad_space", "bad_tspace"}     \* "", "abc", "2e0", " 2", "2 "

Dec(n, sp)  == [n |-> n, sp |-> sp]
DecOk(d)    == d.sp \in GoodSp
DecEmpty(d) == d.sp = "bad_empty"                     \* the empty string
DecStr(d)   == ToString(d.n) \o "/" \o d.sp            \* how a verbatim decimal shows in attributes

\* round half away from zero of n/d, for n >= 0, d > 0
\* (written so that no intermediate value exceeds max(n, 2d): TLC integers are 32-bit)
HalfUp(n, d) == (n \div d) + (IF 2 * (n % d) >= d THEN 1 ELSE 0)
IsTie(n, d)  == 2 * (n % d) = d

\* The pro-rata quotient fee * rq / q is formed by the contract in 28-digit decimals:
\* the exact rational is used here and, only when it is a half-unit tie, the next lower
\* unit is admitted as well (measured: both occur in the implementation).
ProRataSet(f, rq, q) ==
    IF q = 0 THEN {0}
    ELSE IF IsTie(f * rq, q) THEN {HalfUp(f * rq, q), HalfUp(f * rq, q) - 1}
    ELSE {HalfUp(f * rq, q)}

\* price (or rate) times an integer amount
Integral(d, x) == (d.n * x) % SCALE = 0
Times(d, x)    == (d.n * x) \div SCALE                \* meaningful when Integral(d, x)
\* A fee rate is a Dec in units of 1/RSCALE (six decimals).  rate * amount rounded half up, for
\* 0 <= r.n <= RSCALE and 0 <= x < 2 000 000, by long division in base 1000 so that no intermediate
\* value leaves TLC's 32-bit integers:  r.n * x = r.n * (a*1000 + b),  RSCALE = 1000 * 1000
RSCALE == 1000000
RateOf(r, x) ==
    LET a == x \div 1000   b == x % 1000
        q1 == (r.n * a) \div 1000   r1 == (r.n * a) % 1000
        t == r1 * 1000 + r.n * b
    IN q1 + HalfUp(t, RSCALE)

\* "price has at most prec decimals"
PrecOk(d, prec) == IF prec >= PMAXD THEN TRUE ELSE d.n % Pow10(PMAXD - prec) = 0

\* "increment is a multiple of 10^prec" for increments below 2^31
IncOk(inc, prec) == IF prec > 9 THEN FALSE ELSE inc % Pow10(prec) = 0

RECURSIVE SumSeq(_)
SumSeq(s) == IF s = <<>> THEN 0 ELSE Head(s) + SumSeq(Tail(s))

=============================================================================
