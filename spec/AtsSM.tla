------------------------------- MODULE AtsSM -------------------------------
(* The state machine: one TLA+ variable for the storage, one for the chain       *)
(* environment, and `act`, the last request with its admissible outcomes (hidden *)
(* from the fingerprint by VIEW in the model-checking configurations).           *)
EXTENDS AtsReq

VARIABLES st, cenv, act
vars == <<st, cenv, act>>

Step(req) ==
    \E o \in Outcomes(st, cenv, req) :
        /\ st' = o.post
        /\ act' = [req |-> req, outs |-> Outcomes(st, cenv, req), resp |-> o.resp]
        /\ UNCHANGED cenv

NoAct == [req |-> [kind |-> "none"], outs |-> {}, resp |-> ErrResp(<<>>)]
=============================================================================
