------------------------------- MODULE AtsReq -------------------------------
(* Request constructors (the shapes exchanged with the conformance harness). *)
EXTENDS Ats

NoFunds == <<>>

RInstantiate(msg) == [kind |-> "instantiate", sender |-> "admin", funds |-> NoFunds, msg |-> msg]
RCreateAsk(sender, funds, id, base, quote, price, size) ==
    [kind |-> "create_ask", sender |-> sender, funds |-> funds, id |-> id, base |-> base,
     quote |-> quote, price |-> price, size |-> size]
RCreateBid(sender, funds, id, base, fee, price, quote, qsize, size) ==
    [kind |-> "create_bid", sender |-> sender, funds |-> funds, id |-> id, base |-> base, fee |-> fee,
     price |-> price, quote |-> quote, qsize |-> qsize, size |-> size]
RApproveAsk(sender, funds, id, base, size) ==
    [kind |-> "approve_ask", sender |-> sender, funds |-> funds, id |-> id, base |-> base, size |-> size]
RReverse(kind, sender, funds, id, size) ==
    [kind |-> kind, sender |-> sender, funds |-> funds, id |-> id, size |-> size]
RMatch(sender, funds, ask_id, bid_id, price, size) ==
    [kind |-> "execute_match", sender |-> sender, funds |-> funds, ask_id |-> ask_id, bid_id |-> bid_id,
     price |-> price, size |-> size]
RModify(sender, funds, approvers, executors, askfee_rate, askfee_acct, bidfee_rate, bidfee_acct, askattrs, bidattrs) ==
    [kind |-> "modify_contract", sender |-> sender, funds |-> funds, approvers |-> approvers,
     executors |-> executors, askfee_rate |-> askfee_rate, askfee_acct |-> askfee_acct,
     bidfee_rate |-> bidfee_rate, bidfee_acct |-> bidfee_acct, askattrs |-> askattrs, bidattrs |-> bidattrs]
RMigrate(msg) == [kind |-> "migrate", sender |-> "admin", funds |-> NoFunds, msg |-> msg]
RQuery(kind, id) == [kind |-> kind, sender |-> "anyone", funds |-> NoFunds, id |-> id]

NoSeq == None(<<>>)
NoStr == None("")
NoDec == None(Dec(0, "plain"))
ModifyNothing(sender) == RModify(sender, NoFunds, NoSeq, NoSeq, NoDec, NoStr, NoDec, NoStr, NoSeq, NoSeq)
MigrateNothing == [approvers |-> NoSeq, askfee_rate |-> NoDec, askfee_acct |-> NoStr,
                   bidfee_rate |-> NoDec, bidfee_acct |-> NoStr, askattrs |-> NoSeq, bidattrs |-> NoSeq]

InstMsg(name, base, convs, quotes, approvers, executors, askfee, bidfee, askattrs, bidattrs, prec, inc) ==
    [name |-> name, base |-> base, convs |-> convs, quotes |-> quotes, approvers |-> approvers,
     executors |-> executors,
     askfee_rate |-> IF askfee.some THEN Some(askfee.rate) ELSE NoDec,
     askfee_acct |-> IF askfee.some THEN Some(askfee.acct) ELSE NoStr,
     bidfee_rate |-> IF bidfee.some THEN Some(bidfee.rate) ELSE NoDec,
     bidfee_acct |-> IF bidfee.some THEN Some(bidfee.acct) ELSE NoStr,
     askattrs |-> askattrs, bidattrs |-> bidattrs, prec |-> prec, inc |-> inc]

\* the fee a well-formed create_bid carries under configuration cfg
BidFeeFor(cfg, quote, total) ==
    IF cfg.bidfee.some /\ RateOf(cfg.bidfee.rate, total) > 0
    THEN SomeFee(RateOf(cfg.bidfee.rate, total), quote) ELSE NoFee
FeeAmt(f) == IF f.some THEN f.amt ELSE 0
=============================================================================
