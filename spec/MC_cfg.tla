------------------------------- MODULE MC_cfg -------------------------------
(* Scenario cfg: configuration changes (C12) against every emptiness state of the book:   *)
(* each optional field absent / present, rates in equal and unequal spellings, fee pairs  *)
(* half-supplied / empty / unparsable / with an invalid address, lists empty / extended / *)
(* shrunk / reordered; orders are created, matched and cancelled in between, so that the  *)
(* moment a side becomes empty again is visited and later matches charge the current fee. *)
EXTENDS AtsMC

CONSTANT Tier

P(k) == Dec(k * SCALE, "plain")
R(n, sp) == Dec(n * 100, sp)            \* a rate given in units of 0.0001

Cfg0 == InstMsg("ats", "base", <<>>, <<"q1">>, <<"appr1", "appr2">>, <<"exec1", "exec2">>,
                FeeInfo("askfee1", R(5000, "plain")), FeeInfo("bidfee1", R(2500, "plain")), <<>>, <<>>, 0, 1)
Cfg1 == InstMsg("ats", "base", <<>>, <<"q1">>, <<"appr1">>, <<"exec1", "exec2">>, NoFeeInfo, NoFeeInfo, <<"kyc">>, <<"kyc">>, 0, 1)
Cfgs == {Cfg0, Cfg1}

Envs == {[marker |-> [d \in {"base", "q1"} |-> "coin"],
          attrs |-> [a \in {"seller1", "buyer1"} |-> <<"kyc">>]]}

Init == /\ st = EmptyState
        /\ cenv \in Envs
        /\ act = NoAct

Tot(p, s) == (p.n * s) \div SCALE

AskReqs == {RCreateAsk("seller1", Coins1("base", 2), "a1", "base", "q1", P(1), 2)}
BidReqs(S) == {RCreateBid("buyer1", Coins1("q1", 4 + FeeAmt(BidFeeFor(S.cfg, "q1", 4))), "b1", "base",
                          BidFeeFor(S.cfg, "q1", 4), P(2), "q1", 4, 2)}
OtherReqs == {RReverse("cancel_ask", "seller1", NoFunds, "a1", NoSize), RReverse("cancel_bid", "buyer1", NoFunds, "b1", NoSize),
              RMatch("exec1", NoFunds, "a1", "b1", P(1), 1), RMatch("exec2", NoFunds, "a1", "b1", P(2), 2)}

\* ---- the modify family: one field (or one pair) at a time, plus a few combinations
Nothing(who) == ModifyNothing(who)
SeqVariants(kind) ==
  IF kind = "approvers" THEN {Some(<<"appr1", "appr2", "multi1">>), Some(<<"appr2">>), Some(<<>>), Some(<<"BAD">>),
                              Some(<<"appr1", "appr1", "multi1">>)}     \* a duplicate entry while another approver is dropped
                             \cup (IF Tier = "quick" THEN {} ELSE {Some(<<"appr1">>), Some(<<"appr2", "appr1">>)})
  ELSE IF kind = "executors" THEN {Some(<<"exec1">>), Some(<<>>), Some(<<"x">>)}
                             \cup (IF Tier = "quick" THEN {} ELSE {Some(<<"exec1", "exec2">>), Some(<<"exec2", "exec1">>)})
  ELSE {Some(<<>>), Some(<<"kyc">>)} \cup (IF Tier = "quick" THEN {} ELSE {Some(<<"kyc", "acc">>)})
\* (rate, account) pairs for a side whose configured account is acct and rate is 0.5 (ask) / 0.25 (bid)
PairVariants(n, acct, acct2) ==
  { <<Some(R(n, "plain")), Some(acct)>>, <<Some(R(n, "t0")), Some(acct)>>, <<Some(R(n, "plain")), Some(acct2)>>,
    <<Some(R(1000, "plain")), Some(acct)>>, <<Some(R(0, "bad_empty")), Some("")>>,
    <<Some(Dec(n * 100 + 4, "plain")), Some(acct)>>,
    <<Some(R(n, "plain")), NoStr>>, <<NoDec, Some(acct)>>, <<Some(R(0, "bad_word")), Some(acct)>>,
    <<Some(R(n, "plain")), Some("BAD")>>, <<Some(R(n, "plain")), Some("")>>, <<Some(R(0, "bad_empty")), Some(acct)>> }
AskPairs == IF Tier = "quick"
            THEN {<<Some(R(5000, "t0")), Some("askfee2")>>, <<Some(R(1000, "plain")), Some("askfee1")>>,
                  <<Some(R(5000, "t0")), Some("")>>, <<Some(R(2500, "plain")), Some("askfee1")>>,
                  <<Some(Dec(500004, "plain")), Some("askfee1")>>,        \* 0.500004: differs from 0.5 in the sixth decimal only
                  <<Some(R(0, "bad_empty")), Some("")>>, <<Some(R(5000, "plain")), NoStr>>, <<NoDec, Some("askfee1")>>,
                  <<Some(R(0, "bad_word")), Some("askfee1")>>, <<Some(R(5000, "plain")), Some("BAD")>>}
            ELSE PairVariants(5000, "askfee1", "askfee2")
BidPairs == IF Tier = "quick"
            THEN {<<Some(R(2500, "t0")), Some("bidfee2")>>, <<Some(R(0, "bad_empty")), Some("")>>,
                  <<Some(R(1000, "plain")), Some("bidfee1")>>, <<Some(R(5000, "plain")), Some("bidfee1")>>,
                  <<Some(R(2500, "plain")), Some("")>>, <<Some(Dec(250004, "plain")), Some("bidfee1")>>}
            ELSE PairVariants(2500, "bidfee1", "bidfee2")

ModifyReqs ==
  UNION {
       {Nothing(who)}
  \cup {[Nothing(who) EXCEPT !.approvers = v] : v \in SeqVariants("approvers")}
  \cup {[Nothing(who) EXCEPT !.executors = v] : v \in SeqVariants("executors")}
  \cup {[Nothing(who) EXCEPT !.askattrs = v] : v \in SeqVariants("attrs")}
  \cup {[Nothing(who) EXCEPT !.bidattrs = v] : v \in SeqVariants("attrs")}
  \cup {[Nothing(who) EXCEPT !.askfee_rate = pr[1], !.askfee_acct = pr[2]] : pr \in AskPairs}
  \cup {[Nothing(who) EXCEPT !.bidfee_rate = pr[1], !.bidfee_acct = pr[2]] : pr \in BidPairs}
  \cup {[Nothing(who) EXCEPT !.approvers = Some(<<"appr1", "appr2", "multi2">>), !.askattrs = Some(<<"kyc">>),
                             !.bidfee_rate = Some(R(2500, "t0")), !.bidfee_acct = Some("bidfee2")]}
  \cup {[Nothing(who) EXCEPT !.funds = Coins1("q1", 1)]}
  : who \in IF Tier = "quick" THEN {"exec1"} ELSE {"exec1", "exec2"}}
  \* a non-executor: nothing, a legal extension, the lists currently in force, a fee pair
  \cup {Nothing("seller1"), [Nothing("seller1") EXCEPT !.approvers = Some(<<"appr1", "appr2", "multi1">>)],
        [Nothing("seller1") EXCEPT !.approvers = Some(<<"appr1", "appr2">>), !.executors = Some(<<"exec1", "exec2">>)],
        [Nothing("seller1") EXCEPT !.bidfee_rate = Some(R(1000, "plain")), !.bidfee_acct = Some("bidfee1")]}

DoInstantiate == ~st.cfg.set /\ \E m \in Cfgs : Step(RInstantiate(m))
DoCreateAsk   == st.cfg.set /\ \E r \in AskReqs : Step(r)
DoCreateBid   == st.cfg.set /\ \E r \in BidReqs(st) : Step(r)
DoOther       == st.cfg.set /\ \E r \in OtherReqs : Step(r)
DoModify      == st.cfg.set /\ \E r \in ModifyReqs : Step(r)

Next == DoInstantiate \/ DoCreateAsk \/ DoCreateBid \/ DoOther \/ DoModify
=============================================================================
