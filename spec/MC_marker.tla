------------------------------ MODULE MC_marker ------------------------------
(* Scenario marker: every assignment of {restricted, coin, none} to the base, the      *)
(* convertible and the quote denomination, crossed with the full life cycle of one     *)
(* plain-or-convertible ask and one bid (fees on both sides, so that every payout call  *)
(* site of the match is exercised under every marker table).                           *)
EXTENDS AtsMC

CONSTANT Tier

P(k) == Dec(k * SCALE, "plain")

AF == FeeInfo("askfee1", Dec(500000, "plain"))     \* 0.5
BF == FeeInfo("bidfee1", Dec(250000, "plain"))     \* 0.25
\* the base denomination is also a supported QUOTE denomination (instantiation allows it): a convertible ask may
\* then be priced in the very denomination its buyer receives
Cfgs == {InstMsg("ats", "base", <<"cv1">>, <<"q1", "base">>, <<"appr1">>, <<"exec1">>, AF, BF, <<>>, <<>>, 0, 1)}

Kinds == {"restricted", "coin", "none"}
Envs == {[marker |-> [d \in {"base", "cv1", "q1"} |-> CASE d = "base" -> kb [] d = "cv1" -> kc [] OTHER -> kq],
          attrs |-> <<>>] : kb \in Kinds, kc \in Kinds, kq \in Kinds}

Init == /\ st = EmptyState
        /\ cenv \in Envs
        /\ act = NoAct

Sizes == IF Tier = "quick" THEN {2} ELSE {2, 3}
Tot(p, s) == (p.n * s) \div SCALE

\* funds as the marker type demands, and the other way round (one of the two is refused)
FundsFor(d, amt) == {Coins1(d, amt), NoFunds}

AskReqs ==
  UNION {{RCreateAsk("seller1", f, "a1", b, "q1", P(1), s) : f \in FundsFor(b, s)} : b \in {"base", "cv1"}, s \in Sizes}
  \cup UNION {{RCreateAsk("seller1", f, "a1", "cv1", "base", P(1), s) : f \in FundsFor("cv1", s)} : s \in Sizes}
BidReqs(S) ==
  UNION {{RCreateBid("buyer1", f, "b1", "base", BidFeeFor(S.cfg, "q1", Tot(p, s)), p, "q1", Tot(p, s), s)
            : f \in FundsFor("q1", Tot(p, s) + FeeAmt(BidFeeFor(S.cfg, "q1", Tot(p, s))))}
         : p \in {P(1), P(2)}, s \in Sizes}
  \cup UNION {{RCreateBid("buyer1", f, "b1", "base", BidFeeFor(S.cfg, "base", Tot(P(2), s)), P(2), "base", Tot(P(2), s), s)
                  : f \in FundsFor("base", Tot(P(2), s) + FeeAmt(BidFeeFor(S.cfg, "base", Tot(P(2), s))))}
               : s \in Sizes}
ApproveReqs(S) ==
  IF "a1" \in DOMAIN S.asks
  THEN {RApproveAsk("appr1", f, "a1", "base", S.asks["a1"].size) : f \in FundsFor("base", S.asks["a1"].size)}
  ELSE {}
ReverseReqs ==
       {RReverse("cancel_ask", "seller1", NoFunds, "a1", NoSize), RReverse("expire_ask", "exec1", NoFunds, "a1", NoSize),
        RReverse("cancel_bid", "buyer1", NoFunds, "b1", NoSize), RReverse("expire_bid", "exec1", NoFunds, "b1", NoSize)}
  \cup {RReverse("reject_ask", "exec1", NoFunds, "a1", s) : s \in {NoSize, 1}}
  \cup {RReverse("reject_bid", "exec1", NoFunds, "b1", s) : s \in {NoSize, 1}}
MatchReqs == {RMatch("exec1", NoFunds, "a1", "b1", p, s) : p \in {P(1), P(2)}, s \in 1..3}
             \cup {RMatch("exec1", NoFunds, "a1", "b1", Dec(k * SCALE, "t0"), 2) : k \in {1, 2}}   \* "1.0", "2.0"

DoInstantiate == ~st.cfg.set /\ \E m \in Cfgs : Step(RInstantiate(m))
DoCreateAsk   == st.cfg.set /\ \E r \in AskReqs : Step(r)
DoCreateBid   == st.cfg.set /\ \E r \in BidReqs(st) : Step(r)
DoApprove     == st.cfg.set /\ \E r \in ApproveReqs(st) : Step(r)
DoReverse     == st.cfg.set /\ \E r \in ReverseReqs : Step(r)
DoMatch       == st.cfg.set /\ \E r \in MatchReqs : Step(r)

Next == DoInstantiate \/ DoCreateAsk \/ DoCreateBid \/ DoApprove \/ DoReverse \/ DoMatch
=============================================================================
