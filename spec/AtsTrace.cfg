INIT TraceInit
NEXT TraceNext
CHECK_DEADLOCK FALSE
POSTCONDITION TraceDone
CONSTANTS
  Native = TRUE
  CanonIds = {"a1","a2","a3","a4","a5","a6","a7","a8","b1","b2","b3","b4","b5","b6","b7","b8","s1","s2","s3","s4"}
  LegacyIds = {"a1L","a2L","a3L","a4L","b1L","b2L","b3L","b4L","s1L","s2L","a1U","b1U","a1B","b1B","a1R","b1R","s1U"}
  ValidAddrs = {"seller1","seller2","buyer1","buyer2","appr1","appr2","exec1","exec2","askfee1","bidfee1","askfee2","bidfee2","stranger","multi1","multi2","admin"}
  VersPre = {"1.0.0-rc1", "0.19.1-beta", "0.16.2-alpha"}
  VersOld = {"0.14.9", "0.15.0", "0.16.1"}
  VersWin = {"0.16.2", "0.17.0", "0.18.2", "0.19.0"}
  VersNew = {"0.19.1", "0.19.2", "1.0.0", "1.0.1", "2.0.0", "1.0.0+build5"}
