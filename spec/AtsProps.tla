------------------------------ MODULE AtsProps ------------------------------
(***************************************************************************)
(* The seventeen listed properties C01..C17, written declaratively from    *)
(* their statements as named clauses over                                  *)
(*     (pre-state, environment, request, response, post-state)             *)
(* and over single states.  A clause operator returns its name when it is  *)
(* violated; a property holds iff none of its clauses is returned.         *)
(*                                                                         *)
(* The clauses do not use the action operators of Ats.tla (only its data    *)
(* helpers): they are a second formalisation.  TLC checks that every        *)
(* transition of Ats.tla satisfies them (model), and AtsTrace.tla           *)
(* evaluates the same clauses on what the implementation actually did.      *)
(***************************************************************************)
EXTENDS Ats

\* Parameter `native` of the state clauses: TRUE when every bid in the book was created by this
\* contract version (the pro-rata and quote-consistency invariants are promised for those only).

-----------------------------------------------------------------------------
(* Fund movements of a step, as net change per (account, denomination) *)
Ok(resp) == resp.ok

FundsSeq(req, resp) == IF resp.ok THEN req.funds ELSE <<>>

SumOver(S, F(_)) == FoldSet(LAMBDA x, acc : F(x) + acc, 0, S)

SeqSum(s, F(_)) == SumSeq([i \in DOMAIN s |-> F(s[i])])

\* transfers implied by the attached funds (sender -> contract) and by the messages
MsgDelta(m, a, d)  == IF m.denom # d THEN 0
                      ELSE (IF m.to = a THEN m.amt ELSE 0) - (IF m.from = a THEN m.amt ELSE 0)
CoinDelta(c, sender, a, d) == IF c.denom # d THEN 0
                      ELSE (IF a = Contract THEN c.amt ELSE 0) - (IF a = sender THEN c.amt ELSE 0)
Delta(req, resp, a, d) ==
      SeqSum(resp.msgs, LAMBDA m : MsgDelta(m, a, d))
    + SeqSum(FundsSeq(req, resp), LAMBDA c : CoinDelta(c, req.sender, a, d))

\* an expected list of transfers <<from, to, denom, amt>>
XferDelta(xs, a, d) ==
    SeqSum(xs, LAMBDA x : IF x[3] # d THEN 0 ELSE (IF x[2] = a THEN x[4] ELSE 0) - (IF x[1] = a THEN x[4] ELSE 0))

PartiesOf(req, resp, xs) == {req.sender, Contract} \cup {resp.msgs[i].from : i \in DOMAIN resp.msgs}
                            \cup {resp.msgs[i].to : i \in DOMAIN resp.msgs}
                            \cup {xs[i][1] : i \in DOMAIN xs} \cup {xs[i][2] : i \in DOMAIN xs}
DenomsOf(req, resp, xs) == {resp.msgs[i].denom : i \in DOMAIN resp.msgs}
                            \cup {req.funds[i].denom : i \in DOMAIN req.funds}
                            \cup {xs[i][3] : i \in DOMAIN xs}

\* the step's net movements are exactly the expected transfers (nobody else anything)
DeltasAre(req, resp, xs) ==
    \A a \in PartiesOf(req, resp, xs) : \A d \in DenomsOf(req, resp, xs) :
        Delta(req, resp, a, d) = XferDelta(xs, a, d)

Xfer(c, from, to, d, amt) == IF c /\ amt # 0 THEN <<<<from, to, d, amt>>>> ELSE <<>>

-----------------------------------------------------------------------------
(* What the book owes *)
NormBid(b) == ConvertBid(b)                 \* a bid's amounts, whatever its storage format
RemB(b) == LET n == NormBid(b) IN n.size - n.ab
RemQ(b) == LET n == NormBid(b) IN n.qamt - n.aq
RemF(b) == LET n == NormBid(b) IN IF n.fee.some THEN n.fee.amt - n.af ELSE 0

AskOwed(a, d) == (IF a.base = d THEN a.size ELSE 0) + (IF a.class = "ready" /\ a.convd = d THEN a.conva ELSE 0)
BidOwed(b, d) == IF b.quote = d THEN RemQ(b) + RemF(b) ELSE 0
AskOwedAt(S, k, d) == IF k \in DOMAIN S.asks THEN AskOwed(S.asks[k], d) ELSE 0
BidOwedAt(S, k, d) == IF k \in DOMAIN S.bids THEN BidOwed(S.bids[k], d) ELSE 0

Owed(S, d) == SumOver(DOMAIN S.asks, LAMBDA k : AskOwed(S.asks[k], d))
            + SumOver(DOMAIN S.bids, LAMBDA k : BidOwed(S.bids[k], d))

BookDenoms(S) == {S.asks[k].base : k \in DOMAIN S.asks} \cup {S.bids[k].quote : k \in DOMAIN S.bids}
                 \cup {S.asks[k].convd : k \in {x \in DOMAIN S.asks : S.asks[x].class = "ready"}}

IsExecute(req) == req.kind \in ExecuteKinds
IsQuery(req)   == req.kind \in QueryKinds
AskKinds   == {"create_ask", "approve_ask", "cancel_ask", "expire_ask", "reject_ask"}
BidKinds   == {"create_bid", "cancel_bid", "expire_bid", "reject_bid"}
RevAskKinds == {"cancel_ask", "expire_ask", "reject_ask"}
RevBidKinds == {"cancel_bid", "expire_bid", "reject_bid"}
IsMatch(req) == req.kind = "execute_match"

NamedAsks(req) == IF req.kind \in AskKinds THEN {req.id} ELSE IF IsMatch(req) THEN {req.ask_id} ELSE {}
NamedBids(req) == IF req.kind \in BidKinds THEN {req.id} ELSE IF IsMatch(req) THEN {req.bid_id} ELSE {}

If(c, name) == IF c THEN {} ELSE {name}      \* the clause `name` holds iff c

\* the contract's base denomination (a seeded store without a configuration: what the ask itself records)
BaseOf(S, a) == IF S.cfg.set THEN S.cfg.base ELSE a.convd

-----------------------------------------------------------------------------
(* C01  Escrow solvency *)
C01(pre, env, req, resp, post) ==
  LET ds == DenomsOf(req, resp, <<>>) \cup BookDenoms(pre) \cup BookDenoms(post)
      \* single-order requests: every flow of the step is on the named order's behalf
      single == (req.kind \in AskKinds \cup BidKinds) /\ resp.ok
      ledgerSingle ==
        \A d \in ds :
          IF req.kind \in AskKinds
          THEN AskOwedAt(post, req.id, d) - AskOwedAt(pre, req.id, d) = Delta(req, resp, Contract, d)
          ELSE BidOwedAt(post, req.id, d) - BidOwedAt(pre, req.id, d) = Delta(req, resp, Contract, d)
      \* match: base-side flows are booked to the ask, quote-side flows to the bid
      a == pre.asks[req.ask_id]
      b == pre.bids[req.bid_id]
      disjoint == b.quote \notin {a.base, pre.cfg.base}
      ledgerMatch ==
        disjoint =>
          /\ \A d \in ds \ {b.quote} :
               AskOwedAt(post, req.ask_id, d) - AskOwedAt(pre, req.ask_id, d) = Delta(req, resp, Contract, d)
          /\ BidOwedAt(post, req.bid_id, b.quote) - BidOwedAt(pre, req.bid_id, b.quote)
               = Delta(req, resp, Contract, b.quote)
  IN  If(\A d \in ds : Owed(post, d) - Owed(pre, d) = Delta(req, resp, Contract, d), "C01.held_eq_owed")
      \cup If(single => ledgerSingle, "C01.order_ledger")
      \cup If((IsMatch(req) /\ resp.ok /\ req.ask_id \in DOMAIN pre.asks /\ req.bid_id \in DOMAIN pre.bids)
               => ledgerMatch, "C01.order_ledger")

-----------------------------------------------------------------------------
(* C02  Match settlement *)
\* candidate (fee for the fill, fee returned) pairs the pro-rata rule admits
MatchCands(b, g, og, improved) ==
  LET remf == RemF(b)  rq == RemQ(b)
  IN IF ~b.fee.some THEN {<<0, 0>>}
     ELSE {<<remf - ka, IF improved THEN ka - ko ELSE 0>> :
              ka \in ProRataSet(b.fee.amt, rq - g, b.qamt),
              ko \in IF improved THEN ProRataSet(b.fee.amt, rq - og, b.qamt) ELSE {0}}

MatchXfers(cfg, a, b, s, g, og, afee, c) ==
  LET seller == IF a.class = "ready" THEN a.approver ELSE a.owner
  IN    Xfer(TRUE, Contract, b.owner, cfg.base, s)
     \o Xfer(TRUE, Contract, seller, b.quote, g - afee)
     \o Xfer(a.class = "ready", Contract, a.approver, a.base, s)
     \o Xfer(cfg.askfee.some, Contract, cfg.askfee.acct, b.quote, afee)
     \o Xfer(cfg.bidfee.some, Contract, cfg.bidfee.acct, b.quote, c[1])
     \o Xfer(TRUE, Contract, b.owner, b.quote, (og - g) + c[2])

C02(pre, env, req, resp, post) ==
  IF ~(IsMatch(req) /\ resp.ok /\ req.ask_id \in DOMAIN pre.asks /\ req.bid_id \in DOMAIN pre.bids) THEN {}
  ELSE
  LET cfg == pre.cfg
      a == pre.asks[req.ask_id]   b == NormBid(pre.bids[req.bid_id])
      s == req.size   p == req.price
      g == Times(p, s)
      improved == p.n < b.price.n
      og == IF improved THEN Times(b.price, s) ELSE g
      afee == IF cfg.askfee.some THEN RateOf(cfg.askfee.rate, g) ELSE 0
      cands == {c \in MatchCands(b, g, og, improved) : c[1] >= 0 /\ c[2] >= 0 /\ (c[1] > 0 => cfg.bidfee.some)}
      okD(c) == DeltasAre(req, resp, MatchXfers(cfg, a, b, s, g, og, afee, c))
      askLeft == a.size - s
      okR(c) ==
        /\ IF askLeft = 0 THEN req.ask_id \notin DOMAIN post.asks
           ELSE req.ask_id \in DOMAIN post.asks /\ post.asks[req.ask_id].size = askLeft
        /\ IF b.ab + s = b.size THEN req.bid_id \notin DOMAIN post.bids
           ELSE /\ req.bid_id \in DOMAIN post.bids
                /\ LET nb == post.bids[req.bid_id] IN
                     nb.ab = b.ab + s /\ nb.aq = b.aq + og /\ nb.af = b.af + c[1] + c[2]
  IN  If(\E c \in cands : okD(c), "C02.deltas")
      \cup If((\E c \in cands : okD(c)) => (\E c \in cands : okD(c) /\ okR(c)), "C02.remaining")
      \cup If(\A i \in DOMAIN resp.msgs : resp.msgs[i].from = Contract, "C02.from_contract")

-----------------------------------------------------------------------------
(* C03  Match eligibility and limit-price protection *)
MatchEligible(pre, req) ==
  /\ IdCanon(req.ask_id) /\ IdCanon(req.bid_id)
  /\ req.sender \in Range(pre.cfg.executors)
  /\ req.ask_id \in DOMAIN pre.asks /\ req.bid_id \in DOMAIN pre.bids
  /\ LET a == pre.asks[req.ask_id]  b == pre.bids[req.bid_id]  p == req.price  s == req.size IN
       /\ b.fmt = "v3"
       /\ a.quote = b.quote
       /\ a.class # "pending"
       /\ DecOk(a.price) /\ DecOk(b.price) /\ DecOk(p)
       /\ a.price.n <= b.price.n
       /\ p.n \in {a.price.n, b.price.n}
       /\ s >= 1 /\ s <= a.size /\ s <= RemB(b)
       /\ Integral(p, s)
       /\ (p.n < b.price.n => Integral(b.price, s))

\* "with the configured fees payable"
MatchFeesPayable(pre, req) ==
  LET cfg == pre.cfg  b == pre.bids[req.bid_id]  p == req.price  s == req.size
      g == Times(p, s)
      improved == p.n < b.price.n
      og == IF improved THEN Times(b.price, s) ELSE g
  IN /\ (cfg.askfee.some => DecOk(cfg.askfee.rate) /\ cfg.askfee.rate.n >= 0 /\ RateOf(cfg.askfee.rate, g) <= g)
     /\ og <= RemQ(b)
     /\ \A c \in MatchCands(b, g, og, improved) : c[1] >= 0 /\ c[2] >= 0 /\ (c[1] > 0 => cfg.bidfee.some)

C03(pre, env, req, resp, post) ==
  IF ~IsMatch(req) THEN {}
  ELSE LET el == MatchEligible(pre, req) IN
        If(resp.ok => el, "C03.only_if")
   \cup If((el /\ req.funds = <<>> /\ MatchFeesPayable(pre, req)) => resp.ok, "C03.if")
   \cup If((resp.ok /\ req.ask_id \in DOMAIN pre.asks) => req.price.n >= pre.asks[req.ask_id].price.n, "C03.limit_ask")
   \cup If((resp.ok /\ req.bid_id \in DOMAIN pre.bids) => req.price.n <= pre.bids[req.bid_id].price.n, "C03.limit_bid")

-----------------------------------------------------------------------------
(* C04  Cancel / expire / reject return exactly the cancelled escrow *)
PartialGiven(req) == req.kind \in {"reject_ask", "reject_bid"} /\ req.size # NoSize

C04(pre, env, req, resp, post) ==
  IF req.kind \in RevAskKinds /\ req.id \in DOMAIN pre.asks THEN
    LET a == pre.asks[req.id]
        c == IF PartialGiven(req) THEN req.size ELSE a.size
        valid == c >= 1 /\ pre.cfg.inc > 0 /\ c % pre.cfg.inc = 0 /\ c <= a.size
        xs ==    Xfer(TRUE, Contract, a.owner, a.base, c)
              \o Xfer(a.class = "ready", Contract, a.approver, BaseOf(pre, a), c)
        left == a.size - c
    IN IF resp.ok THEN
             If(DeltasAre(req, resp, xs), "C04.deltas")
        \cup If(left > 0 => (req.id \in DOMAIN post.asks /\ post.asks[req.id].size = left), "C04.remaining")
        \cup If((left <= 0) <=> (req.id \notin DOMAIN post.asks), "C04.removed_iff_zero")
        \cup If(PartialGiven(req) => valid, "C04.partial_only_if")
       ELSE If(~(PartialGiven(req) /\ valid /\ IdParses(req.id) /\ req.funds = <<>>
                 /\ req.sender \in Range(pre.cfg.executors)), "C04.partial_if")
  ELSE IF req.kind \in RevBidKinds /\ req.id \in DOMAIN pre.bids /\ pre.bids[req.id].fmt = "v3" THEN
    LET b == pre.bids[req.id]
        c == IF PartialGiven(req) THEN req.size ELSE RemB(b)
        valid == c >= 1 /\ pre.cfg.inc > 0 /\ c % pre.cfg.inc = 0 /\ c <= RemB(b)
        cq == Times(b.price, c)
        keeps == IF b.fee.some THEN ProRataSet(b.fee.amt, RemQ(b) - cq, b.qamt) ELSE {0}
        cfs == {RemF(b) - k : k \in keeps}
        xs(cf) == Xfer(TRUE, Contract, b.owner, b.quote, cq + cf)
        closes == b.ab + c = b.size
        okR(cf) == IF closes THEN req.id \notin DOMAIN post.bids
                   ELSE /\ req.id \in DOMAIN post.bids
                        /\ LET nb == post.bids[req.id] IN
                             nb.ab = b.ab + c /\ nb.aq = b.aq + cq /\ nb.af = b.af + cf
    IN IF resp.ok THEN
             If(\E cf \in cfs : cf >= 0 /\ DeltasAre(req, resp, xs(cf)), "C04.deltas")
        \cup If((\E cf \in cfs : DeltasAre(req, resp, xs(cf)))
                  => (\E cf \in cfs : DeltasAre(req, resp, xs(cf)) /\ okR(cf)), "C04.remaining")
        \cup If(closes <=> (req.id \notin DOMAIN post.bids), "C04.removed_iff_zero")
        \cup If(PartialGiven(req) => valid, "C04.partial_only_if")
       ELSE If(~(PartialGiven(req) /\ valid /\ IdParses(req.id) /\ req.funds = <<>>
                 /\ req.sender \in Range(pre.cfg.executors)), "C04.partial_if")
  ELSE {}

-----------------------------------------------------------------------------
(* C05  Authorization *)
C05(pre, env, req, resp, post) ==
       If((req.kind = "cancel_ask" /\ resp.ok) =>
            (req.id \in DOMAIN pre.asks /\ req.sender = pre.asks[req.id].owner), "C05.cancel_owner_only")
  \cup If((req.kind = "cancel_bid" /\ resp.ok) =>
            (req.id \in DOMAIN pre.bids /\ req.sender = pre.bids[req.id].owner), "C05.cancel_owner_only")
  \cup If((req.kind \in {"execute_match", "expire_ask", "expire_bid", "reject_ask", "reject_bid", "modify_contract"}
            /\ resp.ok) => req.sender \in Range(pre.cfg.executors), "C05.executor_only")
  \cup If((req.kind = "approve_ask" /\ resp.ok) => req.sender \in Range(pre.cfg.approvers), "C05.approver_only")
  \cup If(~resp.ok => (post = pre /\ resp.msgs = <<>>), "C05.refusal_inert")

-----------------------------------------------------------------------------
(* C06  Exit liveness: the owner's plain cancel and an executor's expire always work *)
\* the chain carries a response out only if each message is one it accepts: a bank send of a positive
\* amount of a denomination that is not a restricted marker, or a marker transfer of a positive amount of
\* one that is; otherwise the whole request aborts and the exit has not happened
Executable(env, resp) ==
  \A i \in DOMAIN resp.msgs : LET m == resp.msgs[i] IN
     /\ m.amt > 0
     /\ m.kind \in {"bank", "marker"}
     /\ (m.kind = "marker") <=> Restricted(env, m.denom)

C06(pre, env, req, resp, post) ==
  IF req.funds # <<>> \/ ~pre.cfg.set THEN {}
  ELSE IF req.kind \in {"cancel_ask", "expire_ask"} /\ IdParses(req.id) /\ req.id \in DOMAIN pre.asks THEN
    LET a == pre.asks[req.id]
        entitled == IF req.kind = "cancel_ask" THEN req.sender = a.owner
                    ELSE req.sender \in Range(pre.cfg.executors)
        xs ==    Xfer(TRUE, Contract, a.owner, a.base, a.size)
              \o Xfer(a.class = "ready", Contract, a.approver, BaseOf(pre, a), a.size)
        name == IF req.kind = "cancel_ask" THEN "C06.owner_cancel" ELSE "C06.executor_expire"
    IN If(entitled => (resp.ok /\ Executable(env, resp) /\ DeltasAre(req, resp, xs) /\ req.id \notin DOMAIN post.asks), name)
  ELSE IF req.kind \in {"cancel_bid", "expire_bid"} /\ IdParses(req.id) /\ req.id \in DOMAIN pre.bids
          /\ pre.bids[req.id].fmt = "v3" THEN
    LET b == pre.bids[req.id]
        entitled == IF req.kind = "cancel_bid" THEN req.sender = b.owner
                    ELSE req.sender \in Range(pre.cfg.executors)
        xs == Xfer(TRUE, Contract, b.owner, b.quote, RemQ(b) + RemF(b))
        name == IF req.kind = "cancel_bid" THEN "C06.owner_cancel" ELSE "C06.executor_expire"
    IN If(entitled => (resp.ok /\ Executable(env, resp) /\ DeltasAre(req, resp, xs) /\ req.id \notin DOMAIN post.bids), name)
  ELSE {}

-----------------------------------------------------------------------------
(* C07  Admission *)
OneCoin(funds, d, amt) == funds = <<[denom |-> d, amt |-> amt]>>
OnePull(resp, sender, d, amt) == resp.msgs = <<Marker(sender, Contract, d, amt)>>

EscrowedExactly(env, req, resp, d, amt) ==
  IF Restricted(env, d) THEN req.funds = <<>> /\ OnePull(resp, req.sender, d, amt)
  ELSE OneCoin(req.funds, d, amt) /\ resp.msgs = <<>>
FundsRight(env, req, d, amt) ==
  IF Restricted(env, d) THEN req.funds = <<>> ELSE OneCoin(req.funds, d, amt)

AskAdmissible(pre, env, req) ==
  LET cfg == pre.cfg IN
  /\ cfg.set
  /\ IdCanon(req.id) /\ req.id \notin DOMAIN pre.asks
  /\ DecOk(req.price) /\ req.price.n > 0 /\ PrecOk(req.price, cfg.prec)
  /\ req.size >= 1 /\ req.size % cfg.inc = 0
  /\ req.base # "" /\ (req.base = cfg.base \/ req.base \in Range(cfg.convs))
  /\ req.quote # "" /\ req.quote \in Range(cfg.quotes)
  /\ Range(cfg.askattrs) \subseteq AttrsOf(env, req.sender)
  /\ FundsRight(env, req, req.base, req.size)

BidFeeDue(cfg, total) == IF cfg.bidfee.some THEN RateOf(cfg.bidfee.rate, total) ELSE 0

BidAdmissible(pre, env, req) ==
  LET cfg == pre.cfg  total == Times(req.price, req.size) IN
  /\ cfg.set
  /\ IdCanon(req.id) /\ req.id \notin DOMAIN pre.bids
  /\ DecOk(req.price) /\ req.price.n > 0 /\ PrecOk(req.price, cfg.prec)
  /\ req.size >= 1 /\ req.size % cfg.inc = 0
  /\ Integral(req.price, req.size) /\ total = req.qsize /\ req.qsize >= 1
  /\ (cfg.bidfee.some => DecOk(cfg.bidfee.rate) /\ cfg.bidfee.rate.n >= 0)
  /\ IF req.fee.some THEN req.fee.amt = BidFeeDue(cfg, total) /\ req.fee.denom = req.quote
     ELSE BidFeeDue(cfg, total) = 0
  /\ req.base = cfg.base
  /\ req.quote # "" /\ req.quote \in Range(cfg.quotes)
  /\ Range(cfg.bidattrs) \subseteq AttrsOf(env, req.sender)
  /\ FundsRight(env, req, req.quote, total + (IF req.fee.some THEN req.fee.amt ELSE 0))

C07(pre, env, req, resp, post) ==
  IF req.kind = "create_ask" THEN
    LET adm == AskAdmissible(pre, env, req)
        rec == [id |-> req.id, owner |-> req.sender, base |-> req.base, quote |-> req.quote,
                price |-> req.price, size |-> req.size,
                class |-> IF req.base = pre.cfg.base THEN "basic" ELSE "pending",
                approver |-> "", convd |-> "", conva |-> 0]
    IN   If(resp.ok => adm, "C07.only_if")
    \cup If(adm => resp.ok, "C07.if")
    \cup If(resp.ok => (req.id \in DOMAIN post.asks /\ post.asks[req.id] = rec), "C07.recorded")
    \cup If(resp.ok => EscrowedExactly(env, req, resp, req.base, req.size), "C07.escrow")
    \cup If(req.id \in DOMAIN pre.asks => (req.id \in DOMAIN post.asks /\ post.asks[req.id] = pre.asks[req.id]),
            "C07.existing_untouched")
  ELSE IF req.kind = "create_bid" THEN
    LET adm == BidAdmissible(pre, env, req)
        rec == [fmt |-> "v3", id |-> req.id, owner |-> req.sender, base |-> req.base, size |-> req.size,
                price |-> req.price, quote |-> req.quote, qamt |-> req.qsize, fee |-> req.fee,
                ab |-> 0, aq |-> 0, af |-> 0, events |-> <<>>]
        due == req.qsize + (IF req.fee.some THEN req.fee.amt ELSE 0)
    IN   If(resp.ok => adm, "C07.only_if")
    \cup If(adm => resp.ok, "C07.if")
    \cup If(resp.ok => (req.id \in DOMAIN post.bids /\ post.bids[req.id] = rec), "C07.recorded")
    \cup If(resp.ok => EscrowedExactly(env, req, resp, req.quote, due), "C07.escrow")
    \cup If(req.id \in DOMAIN pre.bids => (req.id \in DOMAIN post.bids /\ post.bids[req.id] = pre.bids[req.id]),
            "C07.existing_untouched")
  ELSE {}

-----------------------------------------------------------------------------
(* C08  Convertible asks *)
C08Step(pre, env, req, resp, post) ==
  LET common == DOMAIN pre.asks \cap DOMAIN post.asks
      mono == \A k \in common :
                 \/ post.asks[k].class = pre.asks[k].class
                 \/ (pre.asks[k].class = "pending" /\ post.asks[k].class = "ready" /\ req.kind = "approve_ask"
                     /\ req.id = k)
      plain == \A k \in common : pre.asks[k].class = "basic" => post.asks[k].class = "basic"
  IN   If(mono, "C08.class_monotone")
  \cup If(plain, "C08.plain_never_approved")
  \cup If((IsMatch(req) /\ resp.ok /\ req.ask_id \in DOMAIN pre.asks) => pre.asks[req.ask_id].class # "pending",
          "C08.pending_never_matched")
  \cup (IF req.kind = "approve_ask" /\ resp.ok THEN
          LET present == req.id \in DOMAIN pre.asks
              a == pre.asks[req.id]
          IN If(/\ present /\ a.class = "pending"
                /\ req.sender \in Range(pre.cfg.approvers)
                /\ req.base = pre.cfg.base /\ req.size = a.size
                /\ EscrowedExactly(env, req, resp, pre.cfg.base, a.size), "C08.approve_only_if")
             \cup If(present => (req.id \in DOMAIN post.asks /\
                       post.asks[req.id] = [a EXCEPT !.class = "ready", !.approver = req.sender,
                                                     !.convd = pre.cfg.base, !.conva = a.size]),
                     "C08.approve_effect")
        ELSE {})

C08State(S) ==
  If(\A k \in DOMAIN S.asks : S.asks[k].class = "ready" =>
        (S.asks[k].conva = S.asks[k].size /\ S.asks[k].convd = S.cfg.base /\ S.asks[k].approver # ""),
     "C08.conv_tracks_size")

-----------------------------------------------------------------------------
(* C09  Fee exactness *)
C09Step(pre, env, req, resp, post) ==
  (IF req.kind = "create_bid" /\ resp.ok THEN
     LET due == BidFeeDue(pre.cfg, req.qsize) IN
     If((IF req.fee.some THEN req.fee.amt ELSE 0) = due /\ (req.fee.some => req.fee.denom = req.quote),
        "C09.create_fee")
   ELSE {})
  \cup
  (IF IsMatch(req) /\ resp.ok /\ req.ask_id \in DOMAIN pre.asks /\ req.bid_id \in DOMAIN pre.bids THEN
     LET cfg == pre.cfg  a == pre.asks[req.ask_id]  b == pre.bids[req.bid_id]
         g == Times(req.price, req.size)
         afee == IF cfg.askfee.some THEN RateOf(cfg.askfee.rate, g) ELSE 0
         seller == IF a.class = "ready" THEN a.approver ELSE a.owner
         others == {seller, b.owner, Contract} \cup (IF cfg.bidfee.some THEN {cfg.bidfee.acct} ELSE {})
     IN If((cfg.askfee.some /\ cfg.askfee.acct \notin others) =>
             (Delta(req, resp, cfg.askfee.acct, b.quote) = afee
              /\ (seller \notin {b.owner, Contract, cfg.bidfee.acct} => Delta(req, resp, seller, b.quote) = g - afee)),
           "C09.ask_fee")
   ELSE {})
  \cup
  \* a bid that leaves the book takes its entire remaining quote and fee with it
  (IF req.kind \in RevBidKinds \cup {"execute_match"} /\ resp.ok THEN
     LET k == IF IsMatch(req) THEN req.bid_id ELSE req.id IN
     IF k \in DOMAIN pre.bids /\ k \notin DOMAIN post.bids THEN
        LET b == pre.bids[k] IN
        If(b.quote \notin {pre.cfg.base} \cup Range(pre.cfg.convs)
             => Delta(req, resp, Contract, b.quote) = -(RemQ(b) + RemF(b)), "C09.lifetime_sum")
     ELSE {}
   ELSE {})

C09State(S, native) ==
  If(native => \A k \in DOMAIN S.bids :
        LET b == S.bids[k] IN
        (b.fmt = "v3" /\ b.fee.some) => (b.fee.amt - b.af) \in ProRataSet(b.fee.amt, b.qamt - b.aq, b.qamt),
     "C09.prorata")

-----------------------------------------------------------------------------
(* C10  Transfer mechanism *)
C10(pre, env, req, resp, post) ==
  LET ms == resp.msgs
      pull(m) == m.from = req.sender /\ m.to = Contract
                 /\ req.kind \in {"create_ask", "create_bid", "approve_ask"}
  IN   If(\A i \in DOMAIN ms : ms[i].kind \in {"bank", "marker"}, "C10.no_other_kind")
  \cup If(\A i \in DOMAIN ms : ms[i].kind \in {"bank", "marker"} =>
            ((ms[i].kind = "marker") <=> Restricted(env, ms[i].denom)), "C10.mechanism")
  \cup If(\A i \in DOMAIN ms : ms[i].amt > 0, "C10.positive")
  \cup If(\A i \in DOMAIN ms : ms[i].kind = "bank" => ms[i].from = Contract, "C10.bank_shape")
  \cup If(\A i \in DOMAIN ms : ms[i].kind = "marker" => ms[i].admin = Contract, "C10.marker_admin")
  \cup If(\A i \in DOMAIN ms : ms[i].kind = "marker" => (ms[i].from = Contract \/ pull(ms[i])), "C10.source")

-----------------------------------------------------------------------------
(* C11  Order integrity *)
AskTerms(a) == <<a.id, a.owner, a.base, a.quote, a.price>>
BidTerms(b) == <<b.id, b.owner, b.base, b.size, b.price, b.quote, b.qamt, b.fee>>

C11Step(pre, env, req, resp, post) ==
  LET ca == DOMAIN pre.asks \cap DOMAIN post.asks
      cb == DOMAIN pre.bids \cap DOMAIN post.bids
      na == NamedAsks(req)   nb == NamedBids(req)
      migrating == req.kind = "migrate"
  IN   If(/\ \A k \in ca : AskTerms(post.asks[k]) = AskTerms(pre.asks[k])
          /\ \A k \in cb : BidTerms(post.bids[k]) = BidTerms(pre.bids[k]), "C11.immutable")
  \cup If(/\ \A k \in ca : post.asks[k].size <= pre.asks[k].size
          /\ \A k \in cb : LET o == NormBid(pre.bids[k])  n == NormBid(post.bids[k]) IN
                             n.ab >= o.ab /\ n.aq >= o.aq /\ n.af >= o.af, "C11.monotone")
  \cup If(\A k \in ca : post.asks[k].class # pre.asks[k].class =>
             (pre.asks[k].class = "pending" /\ post.asks[k].class = "ready"), "C11.class_transition")
  \cup If(/\ \A k \in (DOMAIN pre.asks \cup DOMAIN post.asks) \ na :
                k \in ca /\ post.asks[k] = pre.asks[k]
          /\ \A k \in (DOMAIN pre.bids \cup DOMAIN post.bids) \ nb :
                k \in cb /\ (IF migrating THEN NormBid(post.bids[k]) = NormBid(pre.bids[k])
                             ELSE post.bids[k] = pre.bids[k]), "C11.frame_orders")
  \cup If(/\ \A k \in DOMAIN post.asks \ DOMAIN pre.asks : req.kind = "create_ask" /\ req.id = k
          /\ \A k \in DOMAIN post.bids \ DOMAIN pre.bids : req.kind = "create_bid" /\ req.id = k,
          "C11.frame_orders")
  \cup If((req.kind \in AskKinds \cup BidKinds \cup {"execute_match"})
             => (post.cfg = pre.cfg /\ post.ver = pre.ver), "C11.frame_cfg_ver")

C11State(S, native) ==
  LET cfg == S.cfg IN
       If(native => \A k \in DOMAIN S.bids : LET b == S.bids[k] IN
             b.fmt = "v3" => (Integral(b.price, b.size - b.ab) /\ b.qamt - b.aq = Times(b.price, b.size - b.ab)),
          "C11.quote_consistent")
  \cup If(/\ \A k \in DOMAIN S.asks : LET a == S.asks[k] IN
               /\ a.size > 0
               /\ (a.class = "basic") <=> (a.base = cfg.base)
               /\ a.quote \in Range(cfg.quotes)
               /\ DecOk(a.price) /\ a.price.n > 0 /\ PrecOk(a.price, cfg.prec)
          /\ \A k \in DOMAIN S.bids : LET b == S.bids[k] IN
               /\ RemB(b) > 0
               /\ b.base = cfg.base
               /\ b.quote \in Range(cfg.quotes)
               /\ DecOk(b.price) /\ b.price.n > 0 /\ PrecOk(b.price, cfg.prec), "C11.wellformed")
  \cup If(/\ \A k \in DOMAIN S.asks : S.asks[k].id = k
          /\ \A k \in DOMAIN S.bids : S.bids[k].id = k, "C11.key_eq_id")
  \* storage entries other than the configuration, the version and the two order maps are not the
  \* property's business (an implementation may keep more); they show up as DRIFT only

-----------------------------------------------------------------------------
(* C12  Configuration changes *)
RateNum(f) == IF f.some THEN <<TRUE, f.rate.n>> ELSE <<FALSE, 0>>
Market(c) == <<c.name, c.base, c.convs, c.quotes, c.prec, c.inc>>

\* what a supplied (rate, account) pair must install
PairInstalls(rate, acct, old) ==
    IF ~(rate.some /\ acct.some) THEN old
    ELSE IF acct.v = "" /\ DecEmpty(rate.v) THEN NoFeeInfo
    ELSE FeeInfo(acct.v, rate.v)

C12(pre, env, req, resp, post) ==
  If(IsExecute(req) => Market(post.cfg) = Market(pre.cfg), "C12.market_params_frozen")
  \cup
  (IF req.kind = "modify_contract" /\ resp.ok THEN
     LET o == pre.cfg  n == post.cfg
         hasask == DOMAIN pre.asks # {}   hasbid == DOMAIN pre.bids # {}
     IN   If(hasask => RateNum(n.askfee) = RateNum(o.askfee), "C12.ask_rate_frozen")
     \cup If(hasask => n.askattrs = o.askattrs, "C12.ask_attrs_frozen")
     \cup If(hasbid => RateNum(n.bidfee) = RateNum(o.bidfee), "C12.bid_rate_frozen")
     \cup If(hasbid => n.bidattrs = o.bidattrs, "C12.bid_attrs_frozen")
     \cup If((hasask \/ hasbid) => Range(o.approvers) \subseteq Range(n.approvers), "C12.approvers_superset")
     \cup If(/\ ~req.approvers.some => n.approvers = o.approvers
             /\ ~req.executors.some => n.executors = o.executors
             /\ ~(req.askfee_rate.some /\ req.askfee_acct.some) => n.askfee = o.askfee
             /\ ~(req.bidfee_rate.some /\ req.bidfee_acct.some) => n.bidfee = o.bidfee
             /\ ~req.askattrs.some => n.askattrs = o.askattrs
             /\ ~req.bidattrs.some => n.bidattrs = o.bidattrs, "C12.omitted_kept")
     \cup If(/\ req.approvers.some => n.approvers = req.approvers.v
             /\ req.executors.some => n.executors = req.executors.v
             /\ n.askfee = PairInstalls(req.askfee_rate, req.askfee_acct, o.askfee)
             /\ n.bidfee = PairInstalls(req.bidfee_rate, req.bidfee_acct, o.bidfee)
             /\ req.askattrs.some => n.askattrs = req.askattrs.v
             /\ req.bidattrs.some => n.bidattrs = req.bidattrs.v, "C12.supplied_installed")
     \cup If(/\ req.approvers.some => req.approvers.v # <<>>
             /\ req.executors.some => req.executors.v # <<>>
             /\ n.executors # <<>>, "C12.lists_nonempty")
     \cup If(post.asks = pre.asks /\ post.bids = pre.bids /\ post.ver = pre.ver, "C12.book_untouched")
   ELSE {})

\* the rate that applied when a bid was placed still applies while it is open
C12State(S, frozen, native) ==
  If((frozen /\ native) => \A k \in DOMAIN S.bids : LET b == S.bids[k] IN
        b.fmt = "v3" => (IF b.fee.some THEN b.fee.amt ELSE 0) = BidFeeDue(S.cfg, b.qamt),
     "C12.rate_at_admission")

-----------------------------------------------------------------------------
(* C13  Instantiation *)
PairCoherent(rate, acct) ==
  /\ rate.some = acct.some
  /\ (rate.some => \/ (acct.v = "" /\ DecEmpty(rate.v))
                   \/ (DecOk(rate.v) /\ acct.v \in ValidAddrs))

Coherent(m) ==
  /\ m.name # "" /\ m.base # "" /\ m.quotes # <<>> /\ m.executors # <<>>
  /\ m.prec <= 18 /\ m.inc >= 1 /\ IncOk(m.inc, m.prec)
  /\ PairCoherent(m.askfee_rate, m.askfee_acct) /\ PairCoherent(m.bidfee_rate, m.bidfee_acct)
  /\ Range(m.approvers) \subseteq ValidAddrs /\ Range(m.executors) \subseteq ValidAddrs

C13Step(pre, env, req, resp, post) ==
  IF req.kind = "instantiate" /\ ~pre.cfg.set THEN
    LET m == req.msg
        want == [set |-> TRUE, name |-> m.name, bind |-> "", base |-> m.base, convs |-> m.convs,
                 quotes |-> m.quotes, approvers |-> m.approvers, executors |-> m.executors,
                 askfee |-> PairInstalls(m.askfee_rate, m.askfee_acct, NoFeeInfo),
                 bidfee |-> PairInstalls(m.bidfee_rate, m.bidfee_acct, NoFeeInfo),
                 askattrs |-> m.askattrs, bidattrs |-> m.bidattrs, prec |-> m.prec, inc |-> m.inc]
    IN   If(resp.ok => Coherent(m), "C13.only_if")
    \cup If(Coherent(m) => resp.ok, "C13.if")
    \cup If(resp.ok => ([post.cfg EXCEPT !.bind = ""] = want /\ post.ver = PkgVer /\ post.asks = pre.asks /\ post.bids = pre.bids),
            "C13.stored")
  ELSE IF req.kind \in {"create_ask", "create_bid"} /\ resp.ok THEN
    If(Integral(req.price, req.size) /\ Integral(req.price, pre.cfg.inc), "C13.integrality")
  ELSE {}

C13State(S) ==
  If(S.cfg.set => (S.cfg.prec <= 18 /\ S.cfg.inc >= 1 /\ IncOk(S.cfg.inc, S.cfg.prec)
                   /\ \A k \in DOMAIN S.asks : Integral(S.asks[k].price, S.cfg.inc)), "C13.integrality")

-----------------------------------------------------------------------------
(* C14  Migration *)
MigMsgValid(m) ==
  /\ PairCoherent(m.askfee_rate, m.askfee_acct) /\ PairCoherent(m.bidfee_rate, m.bidfee_acct)
  /\ (m.approvers.some => Range(m.approvers.v) \subseteq ValidAddrs)

Overridden(c, m) ==
  [c EXCEPT !.approvers = IF m.approvers.some THEN m.approvers.v ELSE @,
            !.askfee = PairInstalls(m.askfee_rate, m.askfee_acct, @),
            !.bidfee = PairInstalls(m.bidfee_rate, m.bidfee_acct, @),
            !.askattrs = IF m.askattrs.some THEN m.askattrs.v ELSE @,
            !.bidattrs = IF m.bidattrs.some THEN m.bidattrs.v ELSE @]

TouchedNs(resp, ns) == IF "touched" \in DOMAIN resp
                       THEN {i \in DOMAIN resp.touched : resp.touched[i].ns = ns} # {} ELSE FALSE

C14(pre, env, req, resp, post) ==
  IF req.kind # "migrate" THEN {}
  ELSE LET m == req.msg  sup == VerSupported(pre.ver) IN
       If((~sup \/ ~MigMsgValid(m)) => (~resp.ok /\ post = pre), "C14.gate")
  \cup If((sup /\ MigMsgValid(m) /\ pre.cfg.set) => resp.ok, "C14.accepts_supported")
  \* "exactly as it was" is judged on the stored values; a byte-level rewrite of an unchanged value is DRIFT only
  \cup If(resp.ok => post.asks = pre.asks, "C14.asks_untouched")
  \cup If(resp.ok => post.cfg = Overridden(pre.cfg, m), "C14.overrides_exact")
  \cup If(resp.ok => post.ver = PkgVer, "C14.version_stamped")
  \cup If((resp.ok /\ pre.ver = PkgVer /\ Overridden(pre.cfg, m) = pre.cfg) => post = pre, "C14.idempotent")

-----------------------------------------------------------------------------
(* C15  Bid format conversion *)
EvSum(b, F(_)) == SumSeq([i \in DOMAIN b.events |-> F(b.events[i])])

C15(pre, env, req, resp, post) ==
  IF ~(req.kind = "migrate" /\ resp.ok) THEN {}
  ELSE
  LET keys == DOMAIN pre.bids
      window == pre.ver \in VersWin
      conv(k) ==
        LET o == pre.bids[k]  n == post.bids[k] IN
        /\ n.fmt = "v3" /\ n.events = <<>>
        /\ n.size - n.ab = o.size - EvSum(o, LAMBDA e : IF e.kind \in {"fill", "reject"} THEN e.base ELSE 0)
        /\ n.qamt - n.aq = o.qamt - EvSum(o, LAMBDA e : e.quote)
        /\ (IF n.fee.some THEN n.fee.amt - n.af ELSE 0)
             = (IF o.fee.some THEN o.fee.amt ELSE 0) - EvSum(o, LAMBDA e : IF e.fee.some THEN e.fee.amt ELSE 0)
      same(k) == BidTerms(post.bids[k]) = BidTerms(pre.bids[k])
  IN   If(DOMAIN post.bids = keys, "C15.keyset")
  \cup (IF DOMAIN post.bids # keys THEN {} ELSE
          If(window => \A k \in keys : pre.bids[k].fmt = "v2" => conv(k), "C15.remaining_preserved")
     \cup If(\A k \in keys : same(k), "C15.fields_preserved")
     \cup If(\A k \in keys : pre.bids[k].fmt = "v3" => post.bids[k] = pre.bids[k], "C15.v3_untouched")
     \cup If(~window => post.bids = pre.bids, "C15.window"))

-----------------------------------------------------------------------------
(* C16  Queries *)
C16(pre, env, req, resp, post) ==
  IF ~IsQuery(req) THEN {}
  ELSE If(post = pre /\ (("touched" \in DOMAIN resp) => resp.touched = <<>>), "C16.readonly")
  \cup (IF req.kind = "query_ask" THEN
          LET there == IdParses(req.id) /\ req.id \in DOMAIN pre.asks IN
          If(resp.ok <=> there, "C16.get_order")
          \cup If((resp.ok /\ there) => resp.result = [kind |-> "ask", v |-> pre.asks[req.id]], "C16.get_order")
          \* a completely filled / cancelled order is not reported any more
          \cup If((resp.ok /\ resp.result.kind = "ask") => resp.result.v.size > 0, "C16.get_order")
        ELSE IF req.kind = "query_bid" THEN
          LET there == IdParses(req.id) /\ req.id \in DOMAIN pre.bids /\ pre.bids[req.id].fmt = "v3" IN
          If(resp.ok <=> there, "C16.get_order")
          \cup If((resp.ok /\ there) => resp.result = [kind |-> "bid", v |-> pre.bids[req.id]], "C16.get_order")
          \cup If((resp.ok /\ resp.result.kind = "bid") => RemB(resp.result.v) > 0, "C16.get_order")
        ELSE IF req.kind = "query_cfg" THEN
          If(resp.ok <=> pre.cfg.set, "C16.get_cfg")
          \cup If(resp.ok => resp.result = [kind |-> "cfg", v |-> pre.cfg], "C16.get_cfg")
        ELSE
          If(resp.ok <=> pre.ver # NoVer, "C16.get_ver")
          \cup If(resp.ok => resp.result = [kind |-> "ver", v |-> pre.ver], "C16.get_ver"))

\* "the amounts reported for an order are those a cancel would return": an accepted owner cancel pays the owner
\* exactly the remaining amounts the stored (= queried, by get_order) order shows
C16Cancel(pre, env, req, resp, post) ==
  IF req.kind = "cancel_ask" /\ resp.ok /\ req.id \in DOMAIN pre.asks THEN
    LET a == pre.asks[req.id] IN
    If((a.owner # Contract /\ ~(a.class = "ready" /\ a.approver = a.owner))
         => Delta(req, resp, a.owner, a.base) = a.size, "C16.cancel_agrees")
  ELSE IF req.kind = "cancel_bid" /\ resp.ok /\ req.id \in DOMAIN pre.bids THEN
    LET b == pre.bids[req.id] IN
    If(b.owner # Contract => Delta(req, resp, b.owner, b.quote) = RemQ(b) + RemF(b), "C16.cancel_agrees")
  ELSE {}

\* ... and what a query reports as unspent quote is what the unfilled size is worth (what a cancel computes)
C16State(S, native) ==
  If(native => \A k \in DOMAIN S.bids : LET b == S.bids[k] IN
        (b.fmt = "v3" /\ DecOk(b.price) /\ Integral(b.price, b.size - b.ab)) => b.qamt - b.aq = Times(b.price, b.size - b.ab),
     "C16.cancel_agrees")

-----------------------------------------------------------------------------
(* C17  Response attributes *)
Has(at, k) == k \in DOMAIN at

\* the off-chain consumer: a shadow book driven by the attributes alone
ShadowOf(S) == [asks |-> [k \in DOMAIN S.asks |-> [size |-> S.asks[k].size, class |-> S.asks[k].class]],
                bids |-> [k \in DOMAIN S.bids |-> RemB(S.bids[k])]]

AttrsComplete(at) ==
  /\ Has(at, "action")
  /\ CASE at["action"] \in {"create_ask"} -> Has(at, "id") /\ Has(at, "size") /\ Has(at, "class")
       [] at["action"] \in {"create_bid"} -> Has(at, "id") /\ Has(at, "size")
       [] at["action"] \in {"approve_ask", "cancel_ask"} -> Has(at, "id")
       [] at["action"] \in {"expire_ask", "reject_ask", "cancel_bid", "expire_bid", "reject_bid"}
            -> Has(at, "id") /\ Has(at, "reverse_size") /\ Has(at, "order_open")
       [] at["action"] = "execute" -> Has(at, "ask_id") /\ Has(at, "bid_id") /\ Has(at, "size")
       [] OTHER -> TRUE

Observe(sh, at) ==
  IF ~AttrsComplete(at) THEN sh
  ELSE LET act == at["action"] IN
  CASE act = "create_ask" ->
         [sh EXCEPT !.asks = MapPut(@, at["id"], [size |-> at["size"], class |-> at["class"]])]
    [] act = "create_bid" -> [sh EXCEPT !.bids = MapPut(@, at["id"], at["size"])]
    [] act = "approve_ask" ->
         IF at["id"] \in DOMAIN sh.asks
         THEN [sh EXCEPT !.asks = MapPut(@, at["id"], [sh.asks[at["id"]] EXCEPT !.class = "ready"])] ELSE sh
    [] act = "cancel_ask" -> [sh EXCEPT !.asks = MapDel(@, at["id"])]
    [] act \in {"expire_ask", "reject_ask"} ->
         IF at["order_open"] = "false" THEN [sh EXCEPT !.asks = MapDel(@, at["id"])]
         ELSE IF at["id"] \in DOMAIN sh.asks
         THEN [sh EXCEPT !.asks = MapPut(@, at["id"],
                                 [sh.asks[at["id"]] EXCEPT !.size = @ - at["reverse_size"]])] ELSE sh
    [] act \in {"cancel_bid", "expire_bid", "reject_bid"} ->
         IF at["order_open"] = "false" THEN [sh EXCEPT !.bids = MapDel(@, at["id"])]
         ELSE IF at["id"] \in DOMAIN sh.bids
         THEN [sh EXCEPT !.bids = MapPut(@, at["id"], sh.bids[at["id"]] - at["reverse_size"])] ELSE sh
    [] act = "execute" ->
         LET ai == at["ask_id"]  bi == at["bid_id"]  s == at["size"]
             asks1 == IF ai \in DOMAIN sh.asks
                      THEN (IF sh.asks[ai].size - s = 0 THEN MapDel(sh.asks, ai)
                            ELSE MapPut(sh.asks, ai, [sh.asks[ai] EXCEPT !.size = @ - s]))
                      ELSE sh.asks
             bids1 == IF bi \in DOMAIN sh.bids
                      THEN (IF sh.bids[bi] - s = 0 THEN MapDel(sh.bids, bi) ELSE MapPut(sh.bids, bi, sh.bids[bi] - s))
                      ELSE sh.bids
         IN [asks |-> asks1, bids |-> bids1]
    [] OTHER -> sh

ActionName(kind) == IF kind = "execute_match" THEN "execute" ELSE kind

C17(pre, env, req, resp, post) ==
  IF ~(IsExecute(req) /\ resp.ok) THEN {}
  ELSE
  LET at == resp.attrs
      idsok == IF IsMatch(req)
               THEN Has(at, "ask_id") /\ Has(at, "bid_id") /\ at["ask_id"] = req.ask_id /\ at["bid_id"] = req.bid_id
               ELSE IF req.kind = "modify_contract" THEN TRUE
               ELSE Has(at, "id") /\ at["id"] = req.id
      rev == req.kind \in {"expire_ask", "reject_ask", "cancel_bid", "expire_bid", "reject_bid"}
      returned == IF req.kind \in RevAskKinds
                  THEN (IF req.id \in DOMAIN pre.asks THEN pre.asks[req.id].size ELSE 0)
                       - (IF req.id \in DOMAIN post.asks THEN post.asks[req.id].size ELSE 0)
                  ELSE (IF req.id \in DOMAIN pre.bids THEN RemB(pre.bids[req.id]) ELSE 0)
                       - (IF req.id \in DOMAIN post.bids THEN RemB(post.bids[req.id]) ELSE 0)
      stillopen == IF req.kind \in RevAskKinds THEN req.id \in DOMAIN post.asks ELSE req.id \in DOMAIN post.bids
  IN   If(Has(at, "action") /\ at["action"] = ActionName(req.kind) /\ idsok, "C17.action_ids")
  \cup If(rev => (Has(at, "reverse_size") /\ at["reverse_size"] = returned), "C17.reverse_size")
  \* ... and that size was really handed back: the base units to the ask's owner, at least price x size of quote to the bid's
  \cup If((rev /\ Has(at, "reverse_size") /\ req.kind \in RevAskKinds /\ req.id \in DOMAIN pre.asks) =>
            LET a == pre.asks[req.id] IN
            (a.owner # Contract /\ ~(a.class = "ready" /\ a.approver = a.owner /\ a.base = pre.cfg.base))
              => Delta(req, resp, a.owner, a.base) = at["reverse_size"], "C17.reverse_size")
  \cup If((rev /\ Has(at, "reverse_size") /\ req.kind \in RevBidKinds /\ req.id \in DOMAIN pre.bids) =>
            LET b == pre.bids[req.id] IN
            (b.owner # Contract /\ DecOk(b.price) /\ Integral(b.price, at["reverse_size"]))
              => Delta(req, resp, b.owner, b.quote) >= Times(b.price, at["reverse_size"]), "C17.reverse_size")
  \cup If(rev => (Has(at, "order_open") /\ at["order_open"] = BoolStr(stillopen)), "C17.order_open")
  \cup (IF IsMatch(req) /\ req.ask_id \in DOMAIN pre.asks /\ req.bid_id \in DOMAIN pre.bids THEN
          LET cfg == pre.cfg  b == pre.bids[req.bid_id]
              g == Times(req.price, req.size)
              improved == req.price.n < b.price.n
              og == IF improved THEN Times(b.price, req.size) ELSE g
              afee == IF cfg.askfee.some THEN RateOf(cfg.askfee.rate, g) ELSE 0
              bfees == {c[1] : c \in MatchCands(b, g, og, improved)}
              \* when the two fee accounts can be told apart from every other party, compare with what they got
              a == pre.asks[req.ask_id]
              seller == IF a.class = "ready" THEN a.approver ELSE a.owner
              distinct == cfg.askfee.some /\ cfg.bidfee.some /\ cfg.askfee.acct # cfg.bidfee.acct
                          /\ {cfg.askfee.acct, cfg.bidfee.acct} \cap {seller, b.owner, Contract} = {}
          IN If(/\ Has(at, "size") /\ at["size"] = req.size
                \* "wherever it reports amounts they are the truth": price and fees are judged when present
                /\ Has(at, "price") => at["price"] = req.price.n
                \* quote amounts are whole units: a reported price x size that is not whole cannot be what was executed
                /\ Has(at, "price") => Integral(req.price, req.size)
                /\ Has(at, "ask_fee") => (at["ask_fee"] = afee /\ (~cfg.askfee.some => at["ask_fee"] = 0))
                \* a fee that has no account to go to cannot have been paid
                /\ Has(at, "bid_fee") => (at["bid_fee"] \in bfees /\ (~cfg.bidfee.some => at["bid_fee"] = 0))
                /\ (distinct /\ Has(at, "ask_fee")) => at["ask_fee"] = Delta(req, resp, cfg.askfee.acct, b.quote)
                /\ (distinct /\ Has(at, "bid_fee")) => at["bid_fee"] = Delta(req, resp, cfg.bidfee.acct, b.quote),
                "C17.match_amounts")
        ELSE {})
  \cup (IF req.kind = "create_ask" THEN
          If(/\ Has(at, "price") => at["price"] = DecStr(req.price)
             /\ Has(at, "size") /\ at["size"] = req.size
             /\ Has(at, "class") /\ req.id \in DOMAIN post.asks /\ at["class"] = post.asks[req.id].class,
             "C17.create_approve")
        ELSE IF req.kind = "create_bid" THEN
          If((Has(at, "price") => at["price"] = DecStr(req.price)) /\ Has(at, "size") /\ at["size"] = req.size,
             "C17.create_approve")
        ELSE IF req.kind = "approve_ask" /\ req.id \in DOMAIN post.asks THEN
          If(/\ Has(at, "price") => at["price"] = DecStr(post.asks[req.id].price)
             /\ Has(at, "size") => at["size"] = post.asks[req.id].size
             /\ Has(at, "class") => at["class"] = post.asks[req.id].class, "C17.create_approve")
        ELSE {})
  \cup If(Observe(ShadowOf(pre), at) = ShadowOf(post), "C17.shadow")

-----------------------------------------------------------------------------
StepClauses(pre, env, req, resp, post) ==
       C01(pre, env, req, resp, post) \cup C02(pre, env, req, resp, post) \cup C03(pre, env, req, resp, post)
  \cup C04(pre, env, req, resp, post) \cup C05(pre, env, req, resp, post) \cup C06(pre, env, req, resp, post)
  \cup C07(pre, env, req, resp, post) \cup C08Step(pre, env, req, resp, post)
  \cup C09Step(pre, env, req, resp, post) \cup C10(pre, env, req, resp, post)
  \cup C11Step(pre, env, req, resp, post) \cup C12(pre, env, req, resp, post)
  \cup C13Step(pre, env, req, resp, post) \cup C14(pre, env, req, resp, post)
  \cup C15(pre, env, req, resp, post) \cup C16(pre, env, req, resp, post) \cup C16Cancel(pre, env, req, resp, post)
  \cup C17(pre, env, req, resp, post)

\* `frozen`: no migration has overridden a fee since the open bids were placed
StateClauses(S, frozen, native) ==
  IF ~S.cfg.set THEN {} ELSE      \* a store without a configuration holds no admitted orders
  C08State(S) \cup C09State(S, native) \cup C11State(S, native) \cup C12State(S, frozen, native) \cup C13State(S)
  \cup C16State(S, native)
=============================================================================
