------------------------------- MODULE MC_fee -------------------------------
(* Scenario fee: one fee-bearing bid against asks supplied at prices at or below the     *)
(* bid's, over a range of rates, prices and sizes: every sequence of fills at either     *)
(* limit price, price-improvement refunds, partial rejects and cancels, so that the      *)
(* cumulative effect of the pro-rata roundings is searched, not sampled.                 *)
EXTENDS AtsMC

CONSTANT Tier

P(k) == Dec(k * SCALE, "plain")
R(n) == Dec(n * 100, "plain")          \* a rate given in units of 0.0001

Rates == IF Tier = "quick" THEN {R(1000), R(2500), R(3000)}
         ELSE {R(0), R(500), R(1000), R(2500), R(3000), R(3333), R(5000), R(10000)}
AskRates == IF Tier = "quick" THEN {NoFeeInfo} ELSE {NoFeeInfo, FeeInfo("askfee1", R(5000))}

Cfgs == {InstMsg("ats", "base", <<>>, <<"q1">>, <<"appr1">>, <<"exec1">>, af, FeeInfo("bidfee1", r), <<>>, <<>>, 0, 1)
           : r \in Rates, af \in AskRates}

Envs == {[marker |-> [d \in {"base", "q1"} |-> "coin"], attrs |-> <<>>]}

Init == /\ st = EmptyState
        /\ cenv \in Envs
        /\ act = NoAct

MaxSize == IF Tier = "quick" THEN 4 ELSE 6
BidPrices == IF Tier = "quick" THEN {P(3), P(5)} ELSE {P(2), P(3), P(5), P(7)}
AskPrices == {P(1), P(2), P(3), P(5), P(7)}
Tot(p, s) == (p.n * s) \div SCALE

\* the ask side is only a supplier of fills: it is created at any price not above the bid's
AskReqs(S) ==
  IF "b1" \in DOMAIN S.bids /\ "a1" \notin DOMAIN S.asks
  THEN {RCreateAsk("seller1", Coins1("base", s), "a1", "base", "q1", p, s)
          : p \in {q \in AskPrices : q.n <= S.bids["b1"].price.n}, s \in 1..MaxSize}
  ELSE {}
BidReqs(S) ==
  {RCreateBid("buyer1", Coins1("q1", Tot(p, s) + FeeAmt(BidFeeFor(S.cfg, "q1", Tot(p, s)))),
              "b1", "base", BidFeeFor(S.cfg, "q1", Tot(p, s)), p, "q1", Tot(p, s), s)
     : p \in BidPrices, s \in 1..MaxSize}
ReverseReqs ==
       {RReverse("cancel_ask", "seller1", NoFunds, "a1", NoSize),
        RReverse("cancel_bid", "buyer1", NoFunds, "b1", NoSize), RReverse("expire_bid", "exec1", NoFunds, "b1", NoSize)}
  \cup {RReverse("reject_bid", "exec1", NoFunds, "b1", s) : s \in {NoSize} \cup 1..MaxSize}
MatchReqs(S) ==
  IF "a1" \in DOMAIN S.asks /\ "b1" \in DOMAIN S.bids
  THEN {RMatch("exec1", NoFunds, "a1", "b1", p, s) : p \in {S.asks["a1"].price, S.bids["b1"].price}, s \in 1..MaxSize}
  ELSE {}

DoInstantiate == ~st.cfg.set /\ \E m \in Cfgs : Step(RInstantiate(m))
DoCreateAsk   == st.cfg.set /\ \E r \in AskReqs(st) : Step(r)
DoCreateBid   == st.cfg.set /\ \E r \in BidReqs(st) : Step(r)
DoReverse     == st.cfg.set /\ \E r \in ReverseReqs : Step(r)
DoMatch       == st.cfg.set /\ \E r \in MatchReqs(st) : Step(r)

Next == DoInstantiate \/ DoCreateAsk \/ DoCreateBid \/ DoReverse \/ DoMatch
=============================================================================
