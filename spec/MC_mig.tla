------------------------------- MODULE MC_mig -------------------------------
(* Scenario mig: migration (C14) and bid format conversion (C15).                         *)
(* Initial states are stores carried over from earlier contract versions: a version       *)
(* record (absent, unparsable, pre-release, below / inside / above the conversion          *)
(* window), a configuration, at most one ask under a legacy un-hyphenated key, and up to   *)
(* two bids, each in the current format or in the old event-log format.                    *)
(*   Family "realistic": the old-format logs are those the old code would have written     *)
(*     for the histories of a small fee-bearing bid (computed with the specification's      *)
(*     own match / reject arithmetic), so all state clauses apply after conversion.         *)
(*   Family "arbitrary": every log of up to three events over the six event shapes whose    *)
(*     sums stay within the order; only the conversion clauses apply (Native = FALSE).      *)
(* Then: migrate with every message variant, migrate again, and the ordinary life of the   *)
(* migrated book (match, reject, cancel, expire, queries).                                 *)
EXTENDS AtsMC

CONSTANTS Tier, Family

P(k) == Dec(k * SCALE, "plain")
R(n) == Dec(n * 100, "plain")          \* a rate given in units of 0.0001

BF == FeeInfo("bidfee1", R(2500))
Cfg == [set |-> TRUE, name |-> "ats", bind |-> "", base |-> "base", convs |-> <<"cv1">>, quotes |-> <<"q1">>,
        approvers |-> <<"appr1">>, executors |-> <<"exec1">>, askfee |-> NoFeeInfo, bidfee |-> BF,
        askattrs |-> <<>>, bidattrs |-> <<>>, prec |-> 0, inc |-> 1]

TheEnv == [marker |-> [d \in {"base", "cv1", "q1"} |-> "coin"], attrs |-> <<>>]

FreshBid(id, owner) == [fmt |-> "v3", id |-> id, owner |-> owner, base |-> "base", size |-> 4, price |-> P(2),
                        quote |-> "q1", qamt |-> 8, fee |-> SomeFee(2, "q1"), ab |-> 0, aq |-> 0, af |-> 0, events |-> <<>>]

EvFeeOf(a) == [some |-> a > 0, amt |-> a, denom |-> ""]
Ev(kind, b, q, f) == [kind |-> kind, base |-> b, quote |-> q, fee |-> EvFeeOf(f)]

\* ---- realistic logs: run the specification's own arithmetic on a scratch book and record events
Scratch(bid) == [cfg |-> Cfg, ver |-> PkgVer, extra |-> <<>>,
                 asks |-> ("a9" :> [id |-> "a9", owner |-> "seller9", base |-> "base", quote |-> "q1", price |-> P(1),
                                     size |-> 100, class |-> "basic", approver |-> "", convd |-> "", conva |-> 0]),
                 bids |-> (bid.id :> bid)]
StepsOf(pr) ==   \* pr = <<bid, log>>
  LET bid == pr[1]  log == pr[2]  S == Scratch(bid) IN
     UNION {{ LET nb == o.post.bids[bid.id]  actual == o.resp.attrs["bid_fee"]  g == Times(p, s) IN
              <<nb, log \o <<Ev("fill", s, g, actual)>>
                        \o (IF p.n < bid.price.n THEN <<Ev("refund", 0, nb.aq - bid.aq - g, nb.af - bid.af - actual)>> ELSE <<>>)>>
              : o \in {x \in Outcomes(S, TheEnv, RMatch("exec1", NoFunds, "a9", bid.id, p, s)) :
                          x.resp.ok /\ bid.id \in DOMAIN x.post.bids} }
            : p \in {P(1), P(2)}, s \in {1, 2}}
     \cup { LET nb == o.post.bids[bid.id] IN <<nb, log \o <<Ev("reject", 1, nb.aq - bid.aq, nb.af - bid.af)>>>>
            : o \in {x \in Outcomes(S, TheEnv, RReverse("reject_bid", "exec1", NoFunds, bid.id, 1)) :
                        x.resp.ok /\ bid.id \in DOMAIN x.post.bids} }
RECURSIVE Reach(_, _)
Reach(prs, n) == IF n = 0 THEN prs ELSE Reach(prs \cup UNION {StepsOf(pr) : pr \in prs}, n - 1)
Realistic(id, owner) == Reach({<<FreshBid(id, owner), <<>> >>}, IF Tier = "quick" THEN 1 ELSE 3)

AsV2(bid, log) == [bid EXCEPT !.fmt = "v2", !.ab = 0, !.aq = 0, !.af = 0, !.events = log]

\* ---- arbitrary logs
Shapes == {Ev("fill", 1, 2, 0), Ev("fill", 1, 2, 1), Ev("refund", 0, 1, 0), Ev("refund", 0, 1, 1),
           Ev("reject", 1, 2, 0), Ev("reject", 1, 2, 1)}
Logs(n) == UNION {[1..k -> Shapes] : k \in 0..n}
Within(log) == /\ SumSeq([i \in DOMAIN log |-> IF log[i].kind = "refund" THEN 0 ELSE log[i].base]) < 4
               /\ SumSeq([i \in DOMAIN log |-> log[i].quote]) <= 8
               /\ SumSeq([i \in DOMAIN log |-> log[i].fee.amt]) <= 2
Arbitrary(id, owner) == {<<FreshBid(id, owner), log>> : log \in {l \in Logs(IF Tier = "quick" THEN 2 ELSE 3) : Within(l)}}

Pairs(id, owner) == IF Family = "realistic" THEN Realistic(id, owner) ELSE Arbitrary(id, owner)

\* ---- seeded books
LegacyAsk == [id |-> "a1L", owner |-> "seller1", base |-> "base", quote |-> "q1", price |-> P(1), size |-> 3,
              class |-> "basic", approver |-> "", convd |-> "", conva |-> 0]
B1Variants == {<<>>} \cup {("b1" :> pr[1]) : pr \in Pairs("b1", "buyer1")}           \* native, as the new format stores it
                     \cup {("b1" :> AsV2(pr[1], pr[2])) : pr \in Pairs("b1", "buyer1")}  \* old format
B2Variants == {<<>>, ("b2L" :> AsV2([FreshBid("b2L", "buyer2") EXCEPT !.ab = 0], <<Ev("fill", 1, 2, 1), Ev("reject", 1, 2, 0)>>)),
               ("b2L" :> [FreshBid("b2L", "buyer2") EXCEPT !.ab = 1, !.aq = 2, !.af = 1])}
\* upper-case hyphenated key; an approved convertible ask
LegacyAskU == [LegacyAsk EXCEPT !.id = "a3U", !.size = 2, !.base = "cv1", !.class = "ready", !.approver = "appr1",
                                !.convd = "base", !.conva = 2]
LegacyBidR == [FreshBid("b4R", "buyer1") EXCEPT !.ab = 1, !.aq = 2, !.af = 1]   \* urn:uuid: key, current format
LegacyBidB == AsV2(FreshBid("b5B", "buyer2"), <<Ev("fill", 1, 2, 1)>>)     \* braced key, old format
AskVariants == {<<>>, ("a1L" :> LegacyAsk)}

Book(a, b1, b2) == [cfg |-> Cfg, asks |-> a, bids |-> b1 @@ b2, extra |-> <<>>]
\* old-format, current-format and old-format bids in key order (both formats live under one namespace)
\* orders living under the other legacy id forms (upper-case, urn, braced)
LegacyBidU == [FreshBid("b6U", "buyer1") EXCEPT !.ab = 1, !.aq = 2, !.af = 1]   \* upper-case key, current format
LegacyBook == Book(("a3U" :> LegacyAskU), ("b4R" :> LegacyBidR), ("b5B" :> LegacyBidB) @@ ("b6U" :> LegacyBidU))
FixedBook == Book(("a1L" :> LegacyAsk), ("b1" :> AsV2(FreshBid("b1", "buyer1"), <<Ev("fill", 1, 2, 1)>>)),
                  ("b2L" :> [FreshBid("b2L", "buyer2") EXCEPT !.ab = 1, !.aq = 2, !.af = 1])
                  @@ ("b3" :> AsV2(FreshBid("b3", "buyer2"), <<Ev("reject", 1, 2, 1), Ev("fill", 1, 1, 0), Ev("refund", 0, 1, 0)>>)))

\* eleven current-format bids in key order followed by one old-format bid (a migration that pages through the
\* book must not take a page without old-format bids for the end of the book)
LongIds == <<"b1", "b2", "b3", "b4", "b5", "b6", "b7", "b8", "s1", "s2", "s3">>
LongBook == Book(<<>>, [k \in Range(LongIds) |-> [FreshBid(k, "buyer1") EXCEPT !.ab = 1, !.aq = 2, !.af = 1]],
                 ("s4" :> AsV2(FreshBid("s4", "buyer2"), <<Ev("fill", 1, 2, 1), Ev("reject", 1, 2, 0)>>)))

\* twelve old-format bids (a migration that converts the book page by page must reach the last one)
OldLongBook == Book(<<>>, [k \in Range(LongIds) |-> AsV2(FreshBid(k, "buyer1"), <<Ev("fill", 1, 2, 1)>>)],
                    ("s4" :> AsV2(FreshBid("s4", "buyer2"), <<Ev("fill", 1, 2, 1), Ev("reject", 1, 2, 0)>>)))
\* a configuration with required attributes on both sides (cleared by an empty list at migration)
CfgAttrs == [Cfg EXCEPT !.askattrs = <<"kyc">>, !.bidattrs = <<"kyc", "acc">>]

AllVersions == {NoVer, "garbage", "1.0", "0.14.9", "0.15.0", "0.16.1", "0.16.2", "0.18.2", "0.19.0", "0.19.1",
                "1.0.0", "2.0.0", "1.0.0-rc1", "0.16.2-alpha", "1.0.0+build5",
                \* versions whose order as strings differs from their order as versions
                "0.9.3", "0.16.10", "0.100.0", "10.0.0"}
Seeds ==
       {[FixedBook EXCEPT !.cfg = c] @@ [ver |-> v] : v \in AllVersions, c \in {Cfg, UnsetCfg}}
  \cup {LongBook @@ [ver |-> "0.19.0"], OldLongBook @@ [ver |-> "0.18.2"]}
  \cup {[Book(("a1L" :> LegacyAsk), <<>>, <<>>) EXCEPT !.cfg = CfgAttrs] @@ [ver |-> "0.18.2"]}
  \cup {LegacyBook @@ [ver |-> v] : v \in {"0.18.2", "1.0.0"}}
  \cup {Book(a, b1, b2) @@ [ver |-> v] : v \in (IF Tier = "quick" THEN {"0.18.2"} ELSE {"0.18.2", "0.19.1"}),
                                          a \in (IF Tier = "quick" THEN {<<>>} ELSE AskVariants),
                                          b1 \in B1Variants, b2 \in (IF Tier = "quick" THEN {<<>>} ELSE B2Variants)}

Init == /\ st \in Seeds
        /\ cenv = TheEnv
        /\ act = NoAct

\* ---- requests
MigMsgs ==
  LET N == MigrateNothing IN
  {N, [N EXCEPT !.approvers = Some(<<"appr1", "appr2">>)], [N EXCEPT !.approvers = Some(<<"BAD">>)],
   [N EXCEPT !.approvers = Some(<<>>)],
   [N EXCEPT !.bidfee_rate = Some(R(1000)), !.bidfee_acct = Some("bidfee2")],
   [N EXCEPT !.bidfee_rate = Some(Dec(0, "bad_empty")), !.bidfee_acct = Some("")],
   [N EXCEPT !.askfee_rate = Some(R(5000)), !.askfee_acct = Some("askfee1")],
   [N EXCEPT !.askfee_rate = Some(R(5000))], [N EXCEPT !.bidfee_acct = Some("bidfee1")],
   [N EXCEPT !.askfee_rate = Some(Dec(0, "bad_word")), !.askfee_acct = Some("askfee1")],
   [N EXCEPT !.askfee_rate = Some(R(5000)), !.askfee_acct = Some("BAD")],
   [N EXCEPT !.askattrs = Some(<<"kyc">>), !.bidattrs = Some(<<>>)],
   [N EXCEPT !.askattrs = Some(<<>>)], [N EXCEPT !.bidattrs = Some(<<"acc">>)]}

Keys(S, side) == IF side = "ask" THEN DOMAIN S.asks ELSE DOMAIN S.bids
ContReqs(S) ==
       {RReverse(k, IF k = "cancel_ask" THEN "seller1" ELSE "exec1", NoFunds, i, NoSize)
          : k \in {"cancel_ask", "expire_ask"}, i \in {"a1L", "a1", "a2"}}
  \cup {RReverse(k, IF k = "cancel_bid" THEN (IF i = "b1" THEN "buyer1" ELSE "buyer2") ELSE "exec1", NoFunds, i, NoSize)
          : k \in {"cancel_bid", "expire_bid"}, i \in {"b1", "b2L", "b2", "b3"}}
  \cup {RReverse("cancel_bid", "buyer2", NoFunds, "s4", NoSize), RQuery("query_bid", "s4"),
        RReverse("expire_bid", "exec1", NoFunds, "s3", NoSize), RQuery("query_bid", "s3")}
  \cup {RReverse("cancel_ask", "seller1", NoFunds, "a3U", NoSize), RReverse("expire_ask", "exec1", NoFunds, "a3U", NoSize),
        RReverse("cancel_bid", "buyer1", NoFunds, "b4R", NoSize), RReverse("expire_bid", "exec1", NoFunds, "b4R", NoSize),
        RReverse("cancel_bid", "buyer2", NoFunds, "b5B", NoSize), RReverse("expire_bid", "exec1", NoFunds, "b5B", NoSize),
        RQuery("query_ask", "a3U"), RQuery("query_bid", "b4R"), RQuery("query_bid", "b5B"), RQuery("query_bid", "b6U"),
        RReverse("reject_bid", "exec1", NoFunds, "b6U", 1), RReverse("expire_bid", "exec1", NoFunds, "b6U", NoSize),
        RReverse("reject_ask", "exec1", NoFunds, "a3U", 1), RReverse("reject_bid", "exec1", NoFunds, "b4R", 1)}
  \cup {RReverse("reject_bid", "exec1", NoFunds, i, s) : i \in {"b1", "b2L"}, s \in {NoSize, 1}}
  \cup {RReverse("reject_ask", "exec1", NoFunds, "a1L", 1)}
  \cup {RCreateAsk("seller2", Coins1("base", 2), "a2", "base", "q1", P(1), 2)}
  \cup {RMatch("exec1", NoFunds, "a2", "b1", p, s) : p \in {P(1), P(2)}, s \in {1, 2}}
  \cup {RMatch("exec1", NoFunds, "a1L", "b1", P(1), 1), RMatch("exec1", NoFunds, "a2", "b2L", P(1), 1)}
  \cup {RQuery("query_ask", i) : i \in {"a1L", "a1", "a2"}} \cup {RQuery("query_bid", i) : i \in {"b1", "b2L", "b2", "b3"}}
  \cup {RQuery("query_cfg", ""), RQuery("query_ver", "")}
  \cup {ModifyNothing("exec1")}

\* after the first migration only repetitions (messages that change nothing further) are issued,
\* which keeps the number of configurations per behaviour small
DoMigrate == \E m \in MigMsgs : (st.ver = PkgVer => (~MigMsgValid(m) \/ Overridden(st.cfg, m) = st.cfg)) /\ Step(RMigrate(m))
\* arbitrary logs need not describe a bid this contract could have produced: only the conversion is examined
\* on the long books only the orders at the end of the key order (and one at the start) are operated on: the long
\* books are about the migration reaching every bid, not about the life of twelve bids at once
LongOk(S, x) == Cardinality(DOMAIN S.bids) <= 6
                \/ ("id" \in DOMAIN x /\ x.id \in {"s4", "s3", "b1"} /\ x.kind \in QueryKinds \cup {"cancel_bid", "expire_bid"})
DoCont    == \E r \in {x \in ContReqs(st) : (Family = "realistic" \/ x.kind \in QueryKinds) /\ LongOk(st, x)} : Step(r)

Next == DoMigrate \/ DoCont
=============================================================================
