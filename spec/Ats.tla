-------------------------------- MODULE Ats --------------------------------
(***************************************************************************)
(* Specification of the ATS order-book smart contract                      *)
(* (FigureTechnologies/ats-smart-contract, package version 1.0.0).          *)
(*                                                                         *)
(* The contract is a sequential state machine.  Its storage is abstracted   *)
(* to a record                                                              *)
(*   [cfg, ver, asks, bids, extra]                                          *)
(* and every entry point (instantiate, the eleven execute requests,         *)
(* migrate, the four queries) is one operator that maps                     *)
(* (state, environment, request) to the SET of admissible                   *)
(* [resp, post] outcomes (a singleton except at pro-rata rounding ties).    *)
(* The operators follow the code function by function, guard by guard, and  *)
(* payout by payout; a refusal (Err or panic, rolled back on chain) is      *)
(* resp.ok = FALSE with post = the pre-state.                               *)
(*                                                                         *)
(* This module specifies the INTENDED behaviour.  The five places where    *)
(* the pinned commit deviates are marked D1..D5.                            *)
(*                                                                         *)
(* All values are records, tuples, strings, integers and booleans only, so *)
(* that a value survives a round trip through JSON unchanged: states and   *)
(* requests emitted by TLC are replayed on the implementation, and calls   *)
(* recorded from the implementation are judged by AtsTrace.tla.            *)
(***************************************************************************)
EXTENDS AtsArith, TLC

CONSTANTS
    CanonIds,      \* id tokens rendered as canonical lower-case hyphenated UUIDs
    LegacyIds,     \* id tokens that parse as a UUID but are not canonical (un-hyphenated, upper-case, braced, urn)
    ValidAddrs,    \* account strings the chain API accepts as addresses
    VersPre,       \* version strings that parse but are pre-releases
    VersOld,       \* release versions below 0.16.2
    VersWin,       \* release versions in [0.16.2, 0.19.1): bids stored with an event log
    VersNew        \* release versions >= 0.19.1
\* any other version string is unparsable

PkgVer   == "1.0.0"
Contract == "contract"
NoVer    == "<none>"

IdForm(i) == IF i \in CanonIds THEN "canon" ELSE IF i \in LegacyIds THEN "legacy" ELSE "bad"
IdParses(i) == IdForm(i) # "bad"
IdCanon(i)  == IdForm(i) = "canon"

VerParses(v)   == v \in VersPre \cup VersOld \cup VersWin \cup VersNew
VerSupported(v) == v \in VersWin \cup VersNew          \* matches ">=0.16.2"
VerBelowMin(v)  == v \in VersOld                         \* matches "<0.16.2"

-----------------------------------------------------------------------------
(* Optional values, uniformly typed *)
NoFee        == [some |-> FALSE, amt |-> 0, denom |-> ""]
SomeFee(a,d) == [some |-> TRUE, amt |-> a, denom |-> d]
NoFeeInfo    == [some |-> FALSE, acct |-> "", rate |-> Dec(0, "plain")]
FeeInfo(a,r) == [some |-> TRUE, acct |-> a, rate |-> r]
None(v)      == [some |-> FALSE, v |-> v]                 \* v = a default of the right type
Some(v)      == [some |-> TRUE, v |-> v]
NoSize       == -1                                        \* absent optional size

UnsetCfg == [set |-> FALSE, name |-> "", bind |-> "", base |-> "", convs |-> <<>>, quotes |-> <<>>,
             approvers |-> <<>>, executors |-> <<>>, askfee |-> NoFeeInfo, bidfee |-> NoFeeInfo,
             askattrs |-> <<>>, bidattrs |-> <<>>, prec |-> 0, inc |-> 0]

EmptyMap == <<>>          \* the function with empty domain

EmptyState == [cfg |-> UnsetCfg, ver |-> NoVer, asks |-> EmptyMap, bids |-> EmptyMap, extra |-> <<>>]

-----------------------------------------------------------------------------
(* Environment: chain state the contract only reads *)
MarkerOf(env, d)   == IF d \in DOMAIN env.marker THEN env.marker[d] ELSE "none"
Restricted(env, d) == MarkerOf(env, d) = "restricted"
AttrsOf(env, a)    == IF a \in DOMAIN env.attrs THEN Range(env.attrs[a]) ELSE {}

-----------------------------------------------------------------------------
(* Messages and responses *)
Bank(to, d, a)         == [kind |-> "bank", from |-> Contract, to |-> to, admin |-> "", denom |-> d, amt |-> a]
Marker(from, to, d, a) == [kind |-> "marker", from |-> from, to |-> to, admin |-> Contract, denom |-> d, amt |-> a]
Pay(env, to, d, a)     == IF Restricted(env, d) THEN Marker(Contract, to, d, a) ELSE Bank(to, d, a)
PayIf(env, c, to, d, a) == IF c THEN <<Pay(env, to, d, a)>> ELSE <<>>

NoResult == [kind |-> "none"]
OkResp(msgs, attrs)   == [ok |-> TRUE, msgs |-> msgs, attrs |-> attrs, result |-> NoResult]
QueryResp(res)        == [ok |-> TRUE, msgs |-> <<>>, attrs |-> <<>>, result |-> res]
ErrResp(why)          == [ok |-> FALSE, msgs |-> <<>>, attrs |-> <<>>, result |-> NoResult, why |-> why]

Refuse(S, why)        == {[resp |-> ErrResp(why), post |-> S]}
Accept(resp, post)    == [resp |-> resp, post |-> post]

\* the failed conditions of a guard list <<<<cond, name>>, ...>> (diagnostic only)
Failed(guards) == SelectSeq(guards, LAMBDA g : ~g[1])
Names(gs) == [i \in DOMAIN gs |-> gs[i][2]]

MapPut(m, k, v) == [x \in DOMAIN m \cup {k} |-> IF x = k THEN v ELSE m[x]]
MapDel(m, k)    == [x \in DOMAIN m \ {k} |-> m[x]]

Coins1(d, a) == <<[denom |-> d, amt |-> a]>>

BoolStr(b) == IF b THEN "true" ELSE "false"

-----------------------------------------------------------------------------
(* Orders *)
AskClassStr(a) == IF a.class = "ready"
                  THEN "ready:" \o a.approver \o ":" \o a.convd \o ":" \o ToString(a.conva)
                  ELSE a.class

BidRemBase(b)  == b.size - b.ab
BidRemQuote(b) == b.qamt - b.aq
BidRemFee(b)   == IF b.fee.some THEN b.fee.amt - b.af ELSE 0

-----------------------------------------------------------------------------
(* instantiate *)
FeePairShapeOk(rate, acct) == rate.some = acct.some

\* what a (rate, account) pair installs; defined when FeePairInstallable
FeePairClears(rate, acct)  == rate.some /\ acct.some /\ acct.v = "" /\ DecEmpty(rate.v)
FeePairInstallable(rate, acct) ==
    \/ ~(rate.some /\ acct.some)
    \/ FeePairClears(rate, acct)
    \/ (DecOk(rate.v) /\ acct.v \in ValidAddrs)
FeePairValue(rate, acct, current) ==
    IF ~(rate.some /\ acct.some) THEN current
    ELSE IF FeePairClears(rate, acct) THEN NoFeeInfo
    ELSE FeeInfo(acct.v, rate.v)

Instantiate(S, env, r) ==
  LET m == r.msg
      guards == <<
        <<~S.cfg.set, "already_instantiated">>,
        <<m.name # "", "name">>, <<m.base # "", "base_denom">>,
        <<m.quotes # <<>>, "supported_quote_denoms">>, <<m.executors # <<>>, "executors">>,
        <<FeePairShapeOk(m.askfee_rate, m.askfee_acct), "ask_fee_pair">>,
        <<FeePairShapeOk(m.bidfee_rate, m.bidfee_acct), "bid_fee_pair">>,
        <<m.prec <= 18, "price_precision">>, <<m.inc >= 1, "size_increment">>,
        <<Range(m.approvers) \subseteq ValidAddrs, "approver_addr">>,
        <<Range(m.executors) \subseteq ValidAddrs, "executor_addr">>,
        <<FeePairInstallable(m.askfee_rate, m.askfee_acct), "ask_fee">>,
        <<FeePairInstallable(m.bidfee_rate, m.bidfee_acct), "bid_fee">>,
        <<IncOk(m.inc, m.prec), "precision_increment_pair">> >>
      bad == Failed(guards)
      cfg == [set |-> TRUE, name |-> m.name, bind |-> "", base |-> m.base, convs |-> m.convs,
              quotes |-> m.quotes, approvers |-> m.approvers, executors |-> m.executors,
              askfee |-> FeePairValue(m.askfee_rate, m.askfee_acct, NoFeeInfo),
              bidfee |-> FeePairValue(m.bidfee_rate, m.bidfee_acct, NoFeeInfo),
              askattrs |-> m.askattrs, bidattrs |-> m.bidattrs, prec |-> m.prec, inc |-> m.inc]
  IN IF bad # <<>> THEN Refuse(S, Names(bad))
     ELSE {Accept(OkResp(<<>>, "action" :> "init"),
                  [S EXCEPT !.cfg = cfg, !.ver = PkgVer])}

-----------------------------------------------------------------------------
(* create_ask *)
CreateAsk(S, env, r) ==
  LET cfg == S.cfg
      restricted == Restricted(env, r.base)
      guards == <<
        <<IdCanon(r.id), "id">>, <<r.base # "", "base">>, <<r.quote # "", "quote">>,
        <<~DecEmpty(r.price), "price_empty">>, <<r.size >= 1, "size">>,
        <<cfg.set, "no_contract_info">>,
        <<r.base = cfg.base \/ r.base \in Range(cfg.convs), "inconvertible_base">>,
        <<IF restricted THEN r.funds = <<>> ELSE r.funds = Coins1(r.base, r.size), "funds">>,
        <<r.quote \in Range(cfg.quotes), "unsupported_quote">>,
        <<cfg.inc > 0 /\ r.size % cfg.inc = 0, "size_increment">>,
        <<DecOk(r.price) /\ r.price.n > 0, "price">>,
        <<~DecOk(r.price) \/ PrecOk(r.price, cfg.prec), "price_precision">>,
        <<Range(cfg.askattrs) \subseteq AttrsOf(env, r.sender), "attributes">>,
        <<r.id \notin DOMAIN S.asks, "id_in_use">> >>
      bad == Failed(guards)
      rec == [id |-> r.id, owner |-> r.sender, base |-> r.base, quote |-> r.quote, price |-> r.price,
              size |-> r.size, class |-> IF r.base = cfg.base THEN "basic" ELSE "pending",
              approver |-> "", convd |-> "", conva |-> 0]
      msgs == IF restricted THEN <<Marker(r.sender, Contract, r.base, r.size)>> ELSE <<>>
      attrs == ("action" :> "create_ask") @@ ("id" :> r.id) @@ ("class" :> rec.class) @@ ("class_full" :> AskClassStr(rec))
               @@ ("target_base" :> cfg.base) @@ ("base" :> r.base) @@ ("quote" :> r.quote)
               @@ ("price" :> DecStr(r.price)) @@ ("size" :> r.size)
  IN IF bad # <<>> THEN Refuse(S, Names(bad))
     ELSE {Accept(OkResp(msgs, attrs), [S EXCEPT !.asks = MapPut(S.asks, r.id, rec)])}

-----------------------------------------------------------------------------
(* create_bid *)
FeeStr(f) == IF f.some THEN ToString(f.amt) \o "/" \o f.denom ELSE "none"

CreateBid(S, env, r) ==
  LET cfg == S.cfg
      restricted == Restricted(env, r.quote)
      priceok == DecOk(r.price) /\ r.price.n > 0
      integral == priceok /\ Integral(r.price, r.size)
      total == IF integral THEN Times(r.price, r.size) ELSE 0
      rateok == ~cfg.bidfee.some \/ (DecOk(cfg.bidfee.rate) /\ cfg.bidfee.rate.n >= 0)
      calc == IF cfg.bidfee.some /\ rateok THEN RateOf(cfg.bidfee.rate, total) ELSE 0
      need == total + (IF r.fee.some THEN r.fee.amt ELSE 0)
      guards == <<
        <<IdCanon(r.id), "id">>, <<r.base # "", "base">>, <<~DecEmpty(r.price), "price_empty">>,
        <<r.quote # "", "quote">>, <<r.qsize >= 1, "quote_size">>, <<r.size >= 1, "size">>,
        <<cfg.set, "no_contract_info">>,
        <<priceok, "price">>,
        <<~DecOk(r.price) \/ PrecOk(r.price, cfg.prec), "price_precision">>,
        <<cfg.inc > 0 /\ r.size % cfg.inc = 0, "size_increment">>,
        <<integral, "non_integer_total">>,
        <<total = r.qsize, "quote_size_mismatch">>,
        <<rateok, "stored_bid_fee_rate">>,
        <<IF r.fee.some THEN r.fee.amt = calc /\ r.fee.denom = r.quote ELSE calc = 0, "fee">>,
        <<r.quote \in Range(cfg.quotes), "unsupported_quote">>,
        <<r.base = cfg.base, "base_denom">>,
        <<Range(cfg.bidattrs) \subseteq AttrsOf(env, r.sender), "attributes">>,
        <<IF restricted THEN r.funds = <<>> ELSE r.funds = Coins1(r.quote, need), "funds">>,
        <<r.id \notin DOMAIN S.bids, "id_in_use">> >>
      bad == Failed(guards)
      rec == [fmt |-> "v3", id |-> r.id, owner |-> r.sender, base |-> r.base, size |-> r.size,
              price |-> r.price, quote |-> r.quote, qamt |-> r.qsize, fee |-> r.fee,
              ab |-> 0, aq |-> 0, af |-> 0, events |-> <<>>]
      msgs == IF restricted THEN <<Marker(r.sender, Contract, r.quote, need)>> ELSE <<>>
      attrs == ("action" :> "create_bid") @@ ("base" :> r.base) @@ ("id" :> r.id)
               @@ ("fee" :> FeeStr(r.fee)) @@ ("price" :> DecStr(r.price)) @@ ("quote" :> r.quote)
               @@ ("quote_size" :> r.qsize) @@ ("size" :> r.size)
  IN IF bad # <<>> THEN Refuse(S, Names(bad))
     ELSE {Accept(OkResp(msgs, attrs), [S EXCEPT !.bids = MapPut(S.bids, r.id, rec)])}

-----------------------------------------------------------------------------
(* approve_ask *)
ApproveAsk(S, env, r) ==
  LET cfg == S.cfg
      restricted == Restricted(env, r.base)
      present == r.id \in DOMAIN S.asks
      a == S.asks[r.id]
      guards == <<
        <<IdCanon(r.id), "id">>, <<r.base # "", "base">>, <<r.size >= 1, "size">>,
        <<cfg.set, "no_contract_info">>,
        <<r.sender \in Range(cfg.approvers), "unauthorized">>,
        <<IF restricted THEN r.funds = <<>> ELSE r.funds = Coins1(r.base, r.size), "funds">>,
        <<present, "no_such_ask">>,
        <<present => a.class # "ready", "already_approved">>,
        <<present => a.class # "basic", "not_convertible">>,
        <<present => (r.size = a.size /\ r.base = cfg.base), "size_or_base_mismatch">> >>
      bad == Failed(guards)
      rec == [a EXCEPT !.class = "ready", !.approver = r.sender, !.convd = r.base, !.conva = r.size]
      msgs == IF restricted THEN <<Marker(r.sender, Contract, r.base, r.size)>> ELSE <<>>
      attrs == ("action" :> "approve_ask") @@ ("id" :> a.id) @@ ("class" :> rec.class) @@ ("class_full" :> AskClassStr(rec))
               @@ ("quote" :> a.quote) @@ ("price" :> DecStr(a.price)) @@ ("size" :> a.size)
  IN IF bad # <<>> THEN Refuse(S, Names(bad))
     ELSE {Accept(OkResp(msgs, attrs), [S EXCEPT !.asks = MapPut(S.asks, r.id, rec)])}

-----------------------------------------------------------------------------
(* cancel_ask: owner only; no other precondition *)
CancelAsk(S, env, r) ==
  LET present == r.id \in DOMAIN S.asks
      a == S.asks[r.id]
      guards == <<
        <<IdParses(r.id), "id">>,
        <<r.funds = <<>>, "funds">>,
        <<present, "no_such_ask">>,
        <<present => r.sender = a.owner, "unauthorized">> >>
      bad == Failed(guards)
      msgs == <<Pay(env, a.owner, a.base, a.size)>>
              \o PayIf(env, a.class = "ready", a.approver, a.convd, a.conva)
      attrs == ("action" :> "cancel_ask") @@ ("id" :> a.id)
  IN IF bad # <<>> THEN Refuse(S, Names(bad))
     ELSE {Accept(OkResp(msgs, attrs), [S EXCEPT !.asks = MapDel(S.asks, r.id)])}

-----------------------------------------------------------------------------
(* expire_ask / reject_ask: executors only; optional partial size for reject *)
ReverseAsk(S, env, r, action) ==
  LET cfg == S.cfg
      present == r.id \in DOMAIN S.asks
      a == S.asks[r.id]
      given == action = "reject_ask" /\ r.size # NoSize
      eff == IF given THEN r.size ELSE a.size
      guards == <<
        <<IdParses(r.id), "id">>, <<given => r.size >= 1, "size">>,
        <<r.funds = <<>>, "funds">>,
        <<cfg.set, "no_contract_info">>,
        <<r.sender \in Range(cfg.executors), "unauthorized">>,
        <<present, "no_such_ask">>,
        \* D3: the lot-multiple rule applies to a requested partial size only; the
        \* pinned commit also applies it to the full-size default
        <<(present /\ given) => (cfg.inc > 0 /\ eff % cfg.inc = 0), "size_increment">>,
        <<present => eff <= a.size, "size_above_remainder">> >>
      bad == Failed(guards)
      left == a.size - eff
      \* D1: the recorded approver amount follows the size (the pinned commit leaves it stale)
      rec == [a EXCEPT !.size = left, !.conva = IF a.class = "ready" THEN left ELSE 0]
      msgs == <<Pay(env, a.owner, a.base, eff)>>
              \o PayIf(env, a.class = "ready", a.approver, a.convd, eff)
      attrs == ("action" :> action) @@ ("id" :> r.id) @@ ("reverse_size" :> eff)
               @@ ("order_open" :> BoolStr(left > 0))
  IN IF bad # <<>> THEN Refuse(S, Names(bad))
     ELSE {Accept(OkResp(msgs, attrs),
                  [S EXCEPT !.asks = IF left = 0 THEN MapDel(S.asks, r.id) ELSE MapPut(S.asks, r.id, rec)])}

-----------------------------------------------------------------------------
(* cancel_bid (owner) / expire_bid / reject_bid (executors) *)
ReverseBid(S, env, r, action) ==
  LET cfg == S.cfg
      present == r.id \in DOMAIN S.bids /\ S.bids[r.id].fmt = "v3"
      b == S.bids[r.id]
      given == action = "reject_bid" /\ r.size # NoSize
      rem == BidRemBase(b)
      eff == IF given THEN r.size ELSE rem
      priceok == DecOk(b.price)
      integral == priceok /\ Integral(b.price, eff)
      cq == IF integral THEN Times(b.price, eff) ELSE 0
      rq == BidRemQuote(b)
      remf == BidRemFee(b)
      guards == <<
        <<IdParses(r.id), "id">>, <<given => r.size >= 1, "size">>,
        <<r.funds = <<>>, "funds">>,
        <<cfg.set, "no_contract_info">>,
        <<present, "no_such_bid">>,
        <<present => IF action = "cancel_bid" THEN r.sender = b.owner
                     ELSE r.sender \in Range(cfg.executors), "unauthorized">>,
        \* D3: lot-multiple rule for a requested partial size only
        <<(present /\ given) => (cfg.inc > 0 /\ eff % cfg.inc = 0), "size_increment">>,
        <<present => eff <= rem, "size_above_remainder">>,
        <<present => integral, "non_integer_total">>,
        <<present => cq <= rq, "quote_underflow">> >>
      bad == Failed(guards)
      \* fee still needed for what remains, pro rata of the quote
      keeps == IF b.fee.some THEN {k \in ProRataSet(b.fee.amt, rq - cq, b.qamt) : k <= remf} ELSE {0}
      Out(k) ==
        LET cf == IF b.fee.some THEN remf - k ELSE 0
            rec == [b EXCEPT !.ab = b.ab + eff, !.aq = b.aq + cq, !.af = b.af + cf]
            closed == rec.ab = b.size
            msgs == <<Pay(env, b.owner, b.quote, cq)>> \o PayIf(env, cf > 0, b.owner, b.quote, cf)
            attrs == ("action" :> action) @@ ("id" :> r.id) @@ ("reverse_size" :> eff)
                     @@ ("order_open" :> BoolStr(~closed))
        IN Accept(OkResp(msgs, attrs),
                  [S EXCEPT !.bids = IF closed THEN MapDel(S.bids, r.id) ELSE MapPut(S.bids, r.id, rec)])
  IN IF bad # <<>> THEN Refuse(S, Names(bad))
     ELSE IF keeps = {} THEN Refuse(S, <<"fee_underflow">>)
     ELSE {Out(k) : k \in keeps}

-----------------------------------------------------------------------------
(* execute_match *)
ExecuteMatch(S, env, r) ==
  LET cfg == S.cfg
      apresent == r.ask_id \in DOMAIN S.asks
      bpresent == r.bid_id \in DOMAIN S.bids /\ S.bids[r.bid_id].fmt = "v3"
      both == apresent /\ bpresent
      a == S.asks[r.ask_id]
      b == S.bids[r.bid_id]
      p == r.price
      s == r.size
      pricesok == both /\ DecOk(a.price) /\ DecOk(b.price) /\ DecOk(p)
      crossed == pricesok /\ a.price.n <= b.price.n
      atlimit == crossed /\ (p.n = a.price.n \/ p.n = b.price.n)
      sizeok == both /\ s <= a.size /\ s <= BidRemBase(b)
      gint == atlimit /\ sizeok /\ Integral(p, s)
      g == IF gint THEN Times(p, s) ELSE 0
      improved == gint /\ p.n < b.price.n
      ogint == improved => Integral(b.price, s)
      og == IF improved /\ ogint THEN Times(b.price, s) ELSE g
      arateok == ~cfg.askfee.some \/ (DecOk(cfg.askfee.rate) /\ cfg.askfee.rate.n >= 0)
      afee == IF cfg.askfee.some /\ arateok THEN RateOf(cfg.askfee.rate, g) ELSE 0
      net == g - afee
      rq == IF bpresent THEN BidRemQuote(b) ELSE 0
      remf == IF bpresent THEN BidRemFee(b) ELSE 0
      guards == <<
        <<IdCanon(r.ask_id), "ask_id">>, <<IdCanon(r.bid_id), "bid_id">>,
        <<~DecEmpty(p), "price_empty">>, <<s >= 1, "size">>,
        <<cfg.set, "no_contract_info">>,
        <<r.sender \in Range(cfg.executors), "unauthorized">>,
        <<r.funds = <<>>, "funds">>,
        <<apresent, "no_such_ask">>, <<bpresent, "no_such_bid">>,
        <<both => a.quote = b.quote, "quote_mismatch">>,
        <<both => pricesok, "unparsable_price">>,
        <<pricesok => crossed, "ask_above_bid">>,
        <<crossed => atlimit, "execute_price">>,
        <<both => sizeok, "execute_size">>,
        <<(atlimit /\ sizeok) => gint, "non_integer_total">>,
        <<arateok, "stored_ask_fee_rate">>,
        <<gint => afee <= g, "ask_fee_above_proceeds">>,
        <<apresent => a.class # "pending", "ask_not_ready">>,
        <<gint => og <= rq, "quote_underflow">>,
        <<ogint, "non_integer_original_total">> >>
      bad == Failed(guards)
      \* fee the bid must keep after paying for g (resp. og) of quote
      keepA == IF b.fee.some THEN {k \in ProRataSet(b.fee.amt, rq - g, b.qamt) : k <= remf} ELSE {0}
      keepO == IF b.fee.some THEN {k \in ProRataSet(b.fee.amt, rq - og, b.qamt) : k <= remf} ELSE {0}
      Out(ka, ko) ==
        LET actual == IF b.fee.some THEN remf - ka ELSE 0          \* fee for this fill, to the bid-fee account
            original == IF b.fee.some THEN remf - ko ELSE 0        \* fee this fill would have cost at the bid's price
            \* D2: the difference goes back to the buyer also when the fill's own fee is 0
            \* (the pinned commit returns nothing in that case)
            refundf == IF improved THEN original - actual ELSE 0
            refundq == og - g
            left == a.size - s
            \* the approver amount follows the size
            arec == [a EXCEPT !.size = left, !.conva = IF a.class = "ready" THEN left ELSE 0]
            brec == [b EXCEPT !.ab = b.ab + s, !.aq = b.aq + og, !.af = b.af + actual + refundf]
            seller == IF a.class = "ready" THEN a.approver ELSE a.owner
            msgs ==    PayIf(env, afee > 0, cfg.askfee.acct, b.quote, afee)
                    \o PayIf(env, actual > 0, cfg.bidfee.acct, b.quote, actual)
                    \o (IF a.class = "basic"
                        THEN    PayIf(env, net > 0, a.owner, b.quote, net)          \* D5: nothing is sent when net = 0
                             \o <<Pay(env, b.owner, a.base, s)>>
                        ELSE    <<Pay(env, b.owner, a.convd, s)>>                   \* D4: mechanism of the denomination sent
                             \o <<Pay(env, a.approver, a.base, s)>>
                             \o PayIf(env, net > 0, a.approver, b.quote, net))
                    \o PayIf(env, refundq > 0, b.owner, b.quote, refundq)
                    \o PayIf(env, refundf > 0, b.owner, b.quote, refundf)
            attrs == ("action" :> "execute") @@ ("ask_id" :> r.ask_id) @@ ("bid_id" :> r.bid_id)
                     @@ ("base" :> b.base) @@ ("quote" :> a.quote) @@ ("price" :> p.n)
                     @@ ("size" :> s) @@ ("ask_fee" :> afee)
                     @@ ("bid_fee" :> actual)
        IN Accept(OkResp(msgs, attrs),
             [S EXCEPT !.asks = IF left = 0 THEN MapDel(S.asks, r.ask_id) ELSE MapPut(S.asks, r.ask_id, arec),
                       !.bids = IF brec.ab = b.size THEN MapDel(S.bids, r.bid_id)
                                ELSE MapPut(S.bids, r.bid_id, brec)])
      pairs == {<<ka, ko>> \in keepA \X keepO :
                   /\ ko <= ka                                              \* refund is not negative
                   /\ (remf - ka > 0 => cfg.bidfee.some)}                   \* a fee needs its account
  IN IF bad # <<>> THEN Refuse(S, Names(bad))
     ELSE IF pairs = {} THEN Refuse(S, <<"bid_fee_not_payable">>)
     ELSE {Out(pr[1], IF improved THEN pr[2] ELSE pr[1]) : pr \in pairs}

-----------------------------------------------------------------------------
(* modify_contract *)
OptSeqOk(o)  == o.some => o.v # <<>>

\* the freeze of a side's fee rate while that side has open orders
RateChangeOk(nonempty, current, rate) ==
    \/ ~nonempty
    \/ ~rate.some
    \/ (current.some /\ DecOk(current.rate) /\ DecOk(rate.v) /\ current.rate.n = rate.v.n)

ModifyContract(S, env, r) ==
  LET cfg == S.cfg
      hasask == DOMAIN S.asks # {}
      hasbid == DOMAIN S.bids # {}
      guards == <<
        <<OptSeqOk(r.approvers), "approvers_empty">>, <<OptSeqOk(r.executors), "executors_empty">>,
        <<FeePairShapeOk(r.askfee_rate, r.askfee_acct), "ask_fee_pair">>,
        <<FeePairShapeOk(r.bidfee_rate, r.bidfee_acct), "bid_fee_pair">>,
        <<cfg.set, "no_contract_info">>,
        <<r.sender \in Range(cfg.executors), "unauthorized">>,
        \* D6: a configuration change escrows nothing, so attached funds are refused
        \* (the pinned commit accepted and kept them)
        <<r.funds = <<>>, "funds">>,
        <<hasask => ~r.askattrs.some, "ask_required_attributes">>,
        <<RateChangeOk(hasask, cfg.askfee, r.askfee_rate), "ask_fee">>,
        <<hasbid => ~r.bidattrs.some, "bid_required_attributes">>,
        <<RateChangeOk(hasbid, cfg.bidfee, r.bidfee_rate), "bid_fee">>,
        <<((hasask \/ hasbid) /\ r.approvers.some) => Range(cfg.approvers) \subseteq Range(r.approvers.v), "approvers">>,
        <<VerParses(S.ver) /\ ~VerBelowMin(S.ver), "version">>,
        <<r.approvers.some => Range(r.approvers.v) \subseteq ValidAddrs, "approver_addr">>,
        <<r.executors.some => Range(r.executors.v) \subseteq ValidAddrs, "executor_addr">>,
        <<FeePairInstallable(r.askfee_rate, r.askfee_acct), "ask_fee_value">>,
        <<FeePairInstallable(r.bidfee_rate, r.bidfee_acct), "bid_fee_value">> >>
      bad == Failed(guards)
      new == [cfg EXCEPT
                !.approvers = IF r.approvers.some THEN r.approvers.v ELSE @,
                !.executors = IF r.executors.some THEN r.executors.v ELSE @,
                !.askfee = FeePairValue(r.askfee_rate, r.askfee_acct, @),
                !.bidfee = FeePairValue(r.bidfee_rate, r.bidfee_acct, @),
                !.askattrs = IF r.askattrs.some THEN r.askattrs.v ELSE @,
                !.bidattrs = IF r.bidattrs.some THEN r.bidattrs.v ELSE @]
  IN IF bad # <<>> THEN Refuse(S, Names(bad))
     ELSE {Accept(OkResp(<<>>, "action" :> "modify_contract"), [S EXCEPT !.cfg = new])}

-----------------------------------------------------------------------------
(* migrate: configuration overrides, ask gate, bid gate and conversion, version stamp *)
EvBase(e)  == IF e.kind \in {"fill", "reject"} THEN e.base ELSE 0
EvQuote(e) == e.quote
EvFee(e)   == IF e.fee.some THEN e.fee.amt ELSE 0

ConvertBid(b) ==
    IF b.fmt # "v2" THEN b
    ELSE [b EXCEPT !.fmt = "v3",
                   !.ab = SumSeq([i \in DOMAIN b.events |-> EvBase(b.events[i])]),
                   !.aq = SumSeq([i \in DOMAIN b.events |-> EvQuote(b.events[i])]),
                   !.af = SumSeq([i \in DOMAIN b.events |-> EvFee(b.events[i])]),
                   !.events = <<>>]

Migrate(S, env, r) ==
  LET cfg == S.cfg
      m == r.msg
      guards == <<
        <<FeePairShapeOk(m.askfee_rate, m.askfee_acct), "ask_fee_pair">>,
        <<FeePairShapeOk(m.bidfee_rate, m.bidfee_acct), "bid_fee_pair">>,
        <<S.ver # NoVer, "no_version_info">>,
        <<VerParses(S.ver), "unparsable_version">>,
        <<VerSupported(S.ver), "unsupported_version">>,
        <<cfg.set, "no_contract_info">>,
        <<m.approvers.some => Range(m.approvers.v) \subseteq ValidAddrs, "approver_addr">>,
        <<FeePairInstallable(m.askfee_rate, m.askfee_acct), "ask_fee_value">>,
        <<FeePairInstallable(m.bidfee_rate, m.bidfee_acct), "bid_fee_value">> >>
      bad == Failed(guards)
      new == [cfg EXCEPT
                !.approvers = IF m.approvers.some THEN m.approvers.v ELSE @,
                !.askfee = FeePairValue(m.askfee_rate, m.askfee_acct, @),
                !.bidfee = FeePairValue(m.bidfee_rate, m.bidfee_acct, @),
                !.askattrs = IF m.askattrs.some THEN m.askattrs.v ELSE @,
                !.bidattrs = IF m.bidattrs.some THEN m.bidattrs.v ELSE @]
      bids == IF S.ver \in VersWin THEN [k \in DOMAIN S.bids |-> ConvertBid(S.bids[k])] ELSE S.bids
  IN IF bad # <<>> THEN Refuse(S, Names(bad))
     ELSE {Accept(OkResp(<<>>, <<>>), [S EXCEPT !.cfg = new, !.bids = bids, !.ver = PkgVer])}

-----------------------------------------------------------------------------
(* queries: stuttering steps *)
QueryAsk(S, env, r) ==
  IF IdParses(r.id) /\ r.id \in DOMAIN S.asks
  THEN {Accept(QueryResp([kind |-> "ask", v |-> S.asks[r.id]]), S)}
  ELSE Refuse(S, <<"not_found">>)

QueryBid(S, env, r) ==
  IF IdParses(r.id) /\ r.id \in DOMAIN S.bids /\ S.bids[r.id].fmt = "v3"
  THEN {Accept(QueryResp([kind |-> "bid", v |-> S.bids[r.id]]), S)}
  ELSE Refuse(S, <<"not_found">>)

QueryCfg(S, env, r) ==
  IF S.cfg.set THEN {Accept(QueryResp([kind |-> "cfg", v |-> S.cfg]), S)} ELSE Refuse(S, <<"not_found">>)

QueryVer(S, env, r) ==
  IF S.ver # NoVer THEN {Accept(QueryResp([kind |-> "ver", v |-> S.ver]), S)} ELSE Refuse(S, <<"not_found">>)

-----------------------------------------------------------------------------
Outcomes(S, env, r) ==
  CASE r.kind = "instantiate"     -> Instantiate(S, env, r)
    [] r.kind = "create_ask"      -> CreateAsk(S, env, r)
    [] r.kind = "create_bid"      -> CreateBid(S, env, r)
    [] r.kind = "approve_ask"     -> ApproveAsk(S, env, r)
    [] r.kind = "cancel_ask"      -> CancelAsk(S, env, r)
    [] r.kind = "expire_ask"      -> ReverseAsk(S, env, r, "expire_ask")
    [] r.kind = "reject_ask"      -> ReverseAsk(S, env, r, "reject_ask")
    [] r.kind = "cancel_bid"      -> ReverseBid(S, env, r, "cancel_bid")
    [] r.kind = "expire_bid"      -> ReverseBid(S, env, r, "expire_bid")
    [] r.kind = "reject_bid"      -> ReverseBid(S, env, r, "reject_bid")
    [] r.kind = "execute_match"   -> ExecuteMatch(S, env, r)
    [] r.kind = "modify_contract" -> ModifyContract(S, env, r)
    [] r.kind = "migrate"         -> Migrate(S, env, r)
    [] r.kind = "query_ask"       -> QueryAsk(S, env, r)
    [] r.kind = "query_bid"       -> QueryBid(S, env, r)
    [] r.kind = "query_cfg"       -> QueryCfg(S, env, r)
    [] r.kind = "query_ver"       -> QueryVer(S, env, r)

ExecuteKinds == {"create_ask", "create_bid", "approve_ask", "cancel_ask", "expire_ask", "reject_ask",
                 "cancel_bid", "expire_bid", "reject_bid", "execute_match", "modify_contract"}
QueryKinds   == {"query_ask", "query_bid", "query_cfg", "query_ver"}

=============================================================================
