------------------------------- MODULE MC_frac -------------------------------
(* Scenario frac: fractional prices.  Price precision 1, size increment 10, prices 0.5,    *)
(* 1, 1.5 and 2.5, order sizes on the lot grid, execution and partial-reject sizes ON and   *)
(* OFF the grid: whether size x price (and, at an improved price, size x the bid's price)   *)
(* is a whole number is decided here for every combination, together with what the book     *)
(* records after off-grid fills (exits, pro-rata fee, quote consistency).                    *)
EXTENDS AtsMC

CONSTANT Tier

D(n) == Dec(n, "plain")

AF == FeeInfo("askfee1", Dec(500000, "plain"))
BF == FeeInfo("bidfee1", Dec(250000, "plain"))

\* two grids: one decimal / lots of 10, and three decimals / lots of 1000
Grids == {
  [prec |-> 1, inc |-> 10, askp |-> {D(5000), D(10000), D(15000)}, bidp |-> {D(15000), D(25000)}, third |-> D(20000),
   sizes |-> IF Tier = "quick" THEN {20} ELSE {10, 20}, exec |-> {1, 2, 3, 4, 5, 10, 15, 20, 21}, rej |-> {5, 10, 20}],
  [prec |-> 3, inc |-> 1000, askp |-> {D(10010), D(10050)}, bidp |-> {D(10010), D(10050), D(10100)}, third |-> D(10020),
   sizes |-> {1000}, exec |-> {4, 5, 100, 200, 996, 1000}, rej |-> {500, 1000}] }

Fees == IF Tier = "quick" THEN {<<NoFeeInfo, BF>>} ELSE {<<a, b>> : a \in {NoFeeInfo, AF}, b \in {NoFeeInfo, BF}}
Envs == {[marker |-> [d \in {"base", "cv1", "q1"} |-> "coin"], attrs |-> <<>>, grid |-> g, fees |-> f] : g \in Grids, f \in Fees}

Init == /\ st = EmptyState
        /\ cenv \in Envs
        /\ act = NoAct

G == cenv.grid
Cfg == InstMsg("ats", "base", <<"cv1">>, <<"q1">>, <<"appr1">>, <<"exec1">>, cenv.fees[1], cenv.fees[2], <<>>, <<>>, G.prec, G.inc)
Tot(p, s) == (p.n * s) \div SCALE

AskReqs == {RCreateAsk("seller1", Coins1(b, s), "a1", b, "q1", p, s)
              : b \in (IF Tier = "quick" THEN {"base"} ELSE {"base", "cv1"}), p \in G.askp, s \in G.sizes}
BidReqs(S) ==
  {RCreateBid("buyer1", Coins1("q1", Tot(p, s) + FeeAmt(BidFeeFor(S.cfg, "q1", Tot(p, s)))),
              "b1", "base", BidFeeFor(S.cfg, "q1", Tot(p, s)), p, "q1", Tot(p, s), s)
     : p \in G.bidp, s \in G.sizes}
ApproveReqs(S) ==
  IF "a1" \in DOMAIN S.asks /\ S.asks["a1"].class = "pending"
  THEN {RApproveAsk("appr1", Coins1("base", S.asks["a1"].size), "a1", "base", S.asks["a1"].size)} ELSE {}
ReverseReqs ==
       {RReverse("cancel_ask", "seller1", NoFunds, "a1", NoSize), RReverse("expire_ask", "exec1", NoFunds, "a1", NoSize),
        RReverse("cancel_bid", "buyer1", NoFunds, "b1", NoSize), RReverse("expire_bid", "exec1", NoFunds, "b1", NoSize)}
  \cup {RReverse("reject_ask", "exec1", NoFunds, "a1", s) : s \in {NoSize} \cup G.rej}
  \cup {RReverse("reject_bid", "exec1", NoFunds, "b1", s) : s \in {NoSize} \cup G.rej}
MatchReqs(S) ==
  IF "a1" \in DOMAIN S.asks /\ "b1" \in DOMAIN S.bids
  THEN {RMatch("exec1", NoFunds, "a1", "b1", p, s) : p \in {S.asks["a1"].price, S.bids["b1"].price, G.third}, s \in G.exec}
  ELSE {}

DoInstantiate == ~st.cfg.set /\ Step(RInstantiate(Cfg))
DoCreateAsk   == st.cfg.set /\ \E r \in AskReqs : Step(r)
DoCreateBid   == st.cfg.set /\ \E r \in BidReqs(st) : Step(r)
DoApprove     == st.cfg.set /\ \E r \in ApproveReqs(st) : Step(r)
DoReverse     == st.cfg.set /\ \E r \in ReverseReqs : Step(r)
DoMatch       == st.cfg.set /\ \E r \in MatchReqs(st) : Step(r)

Next == DoInstantiate \/ DoCreateAsk \/ DoCreateBid \/ DoApprove \/ DoReverse \/ DoMatch
=============================================================================
