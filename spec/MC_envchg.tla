------------------------------ MODULE MC_envchg ------------------------------
(* Scenario envchg: the chain environment is not constant.  Between any two requests a    *)
(* denomination's marker type may flip (restricted <-> unrestricted) and an account's      *)
(* required attribute may be granted or revoked.  Orders admitted under one environment    *)
(* are matched, rejected and cancelled under another: every transfer must use the          *)
(* mechanism of the denomination's CURRENT marker type, admission looks at the CURRENT      *)
(* attributes, and exits never depend on attributes at all.                                *)
EXTENDS AtsMC

CONSTANT Tier

P(k) == Dec(k * SCALE, "plain")
BF == FeeInfo("bidfee1", Dec(250000, "plain"))
Cfgs == {InstMsg("ats", "base", <<"cv1">>, <<"q1">>, <<"appr1">>, <<"exec1">>, NoFeeInfo, BF, <<"kyc">>, <<"kyc">>, 0, 1)}

Denoms == IF Tier = "quick" THEN {"base", "q1"} ELSE {"base", "cv1", "q1"}
Accts == {"seller1", "buyer1"}
Envs == {[marker |-> [d \in {"base", "cv1", "q1"} |-> "coin"], attrs |-> [a \in Accts |-> <<"kyc">>]]}

Init == /\ st = EmptyState
        /\ cenv \in Envs
        /\ act = NoAct

\* environment steps (no request is involved; nothing is emitted for them)
EnvAct == [req |-> [kind |-> "envchange"], outs |-> {}, resp |-> ErrResp(<<>>)]
FlipMarker == \E d \in Denoms :
    /\ cenv' = [cenv EXCEPT !.marker[d] = IF @ = "coin" THEN "restricted" ELSE "coin"]
    /\ UNCHANGED st /\ act' = EnvAct
FlipAttr == \E a \in Accts :
    /\ cenv' = [cenv EXCEPT !.attrs[a] = IF @ = <<>> THEN <<"kyc">> ELSE <<>>]
    /\ UNCHANGED st /\ act' = EnvAct

Tot(p, s) == (p.n * s) \div SCALE
FundsFor(d, amt) == {Coins1(d, amt), NoFunds}

AskReqs == UNION {{RCreateAsk("seller1", f, "a1", b, "q1", P(1), 2) : f \in FundsFor(b, 2)}
                    : b \in (IF Tier = "quick" THEN {"base"} ELSE {"base", "cv1"})}
BidReqs(S) ==
  UNION {{RCreateBid("buyer1", f, "b1", "base", BidFeeFor(S.cfg, "q1", Tot(p, 2)), p, "q1", Tot(p, 2), 2)
            : f \in FundsFor("q1", Tot(p, 2) + FeeAmt(BidFeeFor(S.cfg, "q1", Tot(p, 2))))}
         : p \in {P(2)}}
ApproveReqs(S) ==
  IF "a1" \in DOMAIN S.asks /\ S.asks["a1"].class = "pending"
  THEN {RApproveAsk("appr1", f, "a1", "base", 2) : f \in FundsFor("base", 2)} ELSE {}
OtherReqs ==
       {RReverse("cancel_ask", "seller1", NoFunds, "a1", NoSize), RReverse("expire_ask", "exec1", NoFunds, "a1", NoSize),
        RReverse("cancel_bid", "buyer1", NoFunds, "b1", NoSize), RReverse("expire_bid", "exec1", NoFunds, "b1", NoSize),
        RReverse("reject_ask", "exec1", NoFunds, "a1", 1), RReverse("reject_bid", "exec1", NoFunds, "b1", 1)}
  \cup {RMatch("exec1", NoFunds, "a1", "b1", p, s) : p \in {P(1), P(2)}, s \in {1, 2}}

DoInstantiate == ~st.cfg.set /\ \E m \in Cfgs : Step(RInstantiate(m))
DoCreateAsk   == st.cfg.set /\ \E r \in AskReqs : Step(r)
DoCreateBid   == st.cfg.set /\ \E r \in BidReqs(st) : Step(r)
DoApprove     == st.cfg.set /\ \E r \in ApproveReqs(st) : Step(r)
DoOther       == st.cfg.set /\ \E r \in OtherReqs : Step(r)
DoEnv         == st.cfg.set /\ (FlipMarker \/ FlipAttr)

Next == DoInstantiate \/ DoCreateAsk \/ DoCreateBid \/ DoApprove \/ DoOther \/ DoEnv
=============================================================================
