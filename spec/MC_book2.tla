------------------------------ MODULE MC_book2 ------------------------------
(* Scenario book2: several orders per side at once (interference, C11): two ask keys and   *)
(* two bid keys, one id used on BOTH sides of the book, owners that own several orders,    *)
(* a convertible ask next to a plain one; every request names one key and the complete     *)
(* book is compared before and after.                                                      *)
EXTENDS AtsMC

CONSTANT Tier

P(k) == Dec(k * SCALE, "plain")

\* the base denomination is ALSO listed as convertible (instantiation allows it): asks in it are plain all the same
BF == FeeInfo("bidfee1", Dec(250000, "plain"))
Cfgs == IF Tier = "quick"
        THEN {InstMsg("ats", "base", <<"cv1", "base">>, <<"q1", "q2">>, <<"appr1">>, <<"exec1">>, NoFeeInfo, BF, <<>>, <<>>, 0, 1)}
        ELSE {InstMsg("ats", "base", <<"cv1", "base">>, <<"q1", "q2">>, <<"appr1">>, <<"exec1">>, a, b, <<>>, <<>>, 0, 1)
                : a \in {NoFeeInfo, FeeInfo("askfee1", Dec(500000, "plain"))}, b \in {BF}}

Envs == {[marker |-> [d \in {"base", "cv1", "q1", "q2"} |-> "coin"], attrs |-> <<>>]}

Init == /\ st = EmptyState
        /\ cenv \in Envs
        /\ act = NoAct

AskIds == {"a1", "s1"}
BidIds == {"b1", "s1"}
Owner(id, side) == IF side = "ask" THEN (IF id = "s1" THEN "seller1" ELSE "multi1") ELSE "multi1"
Tot(p, s) == (p.n * s) \div SCALE
Sz == IF Tier = "quick" THEN {2} ELSE {1, 2}

AskReqs ==
  {RCreateAsk(Owner(i, "ask"), Coins1(b, s), i, b, q, P(1), s)
     : i \in AskIds, b \in (IF Tier = "quick" THEN {"base"} ELSE {"base", "cv1"}), q \in {"q1", "q2"}, s \in Sz}
  \cup {RCreateAsk("seller1", Coins1("cv1", 2), "a1", "cv1", "q1", P(1), 2)}
  \* another account tries an id that may already be on the book (it must never overwrite the order there)
  \cup {RCreateAsk("seller2", Coins1("base", 2), i, "base", "q1", P(2), 2) : i \in AskIds}
BidReqs(S) ==
  {RCreateBid(Owner(i, "bid"), Coins1(q, Tot(p, s) + FeeAmt(BidFeeFor(S.cfg, q, Tot(p, s)))), i, "base",
              BidFeeFor(S.cfg, q, Tot(p, s)), p, q, Tot(p, s), s)
     : i \in BidIds, p \in {P(2)}, q \in (IF Tier = "quick" THEN {"q1"} ELSE {"q1", "q2"}), s \in Sz}
ApproveReqs == {RApproveAsk("appr1", Coins1("base", 2), i, "base", 2) : i \in AskIds}
ReverseReqs ==
       {RReverse("cancel_ask", who, NoFunds, i, NoSize) : i \in AskIds, who \in {"seller1", "multi1"}}
  \cup {RReverse("cancel_bid", who, NoFunds, i, NoSize) : i \in BidIds, who \in {"seller1", "multi1"}}
  \cup {RReverse("expire_ask", "exec1", NoFunds, i, NoSize) : i \in AskIds}
  \cup {RReverse("expire_bid", "exec1", NoFunds, i, NoSize) : i \in BidIds}
  \cup {RReverse("reject_ask", "exec1", NoFunds, i, 1) : i \in AskIds}
  \cup {RReverse("reject_bid", "exec1", NoFunds, i, 1) : i \in BidIds}
MatchReqs == {RMatch("exec1", NoFunds, a, b, p, s) : a \in AskIds, b \in BidIds, p \in {P(1), P(2)}, s \in {1, 2}}
QueryReqs == {RQuery("query_ask", i) : i \in AskIds \cup {"b1"}} \cup {RQuery("query_bid", i) : i \in BidIds \cup {"a1"}}

DoInstantiate == ~st.cfg.set /\ \E m \in Cfgs : Step(RInstantiate(m))
DoCreateAsk   == st.cfg.set /\ \E r \in AskReqs : Step(r)
DoCreateBid   == st.cfg.set /\ \E r \in BidReqs(st) : Step(r)
DoApprove     == st.cfg.set /\ \E r \in ApproveReqs : Step(r)
DoReverse     == st.cfg.set /\ \E r \in ReverseReqs : Step(r)
DoMatch       == st.cfg.set /\ \E r \in MatchReqs : Step(r)
DoQuery       == st.cfg.set /\ \E r \in QueryReqs : Step(r)

Next == DoInstantiate \/ DoCreateAsk \/ DoCreateBid \/ DoApprove \/ DoReverse \/ DoMatch \/ DoQuery
=============================================================================
