----------------------------- MODULE MC_instbig -----------------------------
(* Scenario instbig: the precision / increment rule of instantiation (C13) for increments  *)
(* beyond TLC's 32-bit integers.  An increment is a sequence of decimal digits; "multiple   *)
(* of 10^precision" is "the last `precision` digits are zero (and there are more digits     *)
(* than that)".  Every precision 0..19 is crossed with increments around each power of ten  *)
(* 10^k, k = 0..30: 10^k - 1, 10^k, 10^k + 1, 2*10^k, 10^k + 10^(k-1), and 0.               *)
(* The single state variable is the stored (precision, increment) pair; the invariant is    *)
(* the integrality consequence: a stored increment has at least `precision` trailing zeros,  *)
(* so that any price with at most that many decimals times any multiple of it is whole.     *)
EXTENDS Integers, Sequences, TLC, Json

VARIABLES stored, last
bvars == <<stored, last>>

Zeros(n) == [i \in 1..n |-> 0]
Nines(n) == [i \in 1..n |-> 9]
Pow(k)      == <<1>> \o Zeros(k)                                   \* 10^k
PowPlus1(k) == IF k = 0 THEN <<2>> ELSE <<1>> \o Zeros(k - 1) \o <<1>>   \* 10^k + 1
PowMinus1(k) == IF k = 0 THEN <<0>> ELSE Nines(k)                  \* 10^k - 1
Twice(k)    == <<2>> \o Zeros(k)                                   \* 2 * 10^k
PowPlusTenth(k) == IF k = 0 THEN <<1>> ELSE <<1, 1>> \o Zeros(k - 1)     \* 10^k + 10^(k-1)

Incs == UNION {{Pow(k), PowPlus1(k), PowMinus1(k), Twice(k), PowPlusTenth(k)} : k \in 0..30} \cup {<<0>>}

RECURSIVE TrailingZeros(_)
TrailingZeros(d) == IF d = <<>> \/ d[Len(d)] # 0 THEN 0 ELSE 1 + TrailingZeros(SubSeq(d, 1, Len(d) - 1))
IsZero(d) == \A i \in DOMAIN d : d[i] = 0

\* the rule, as the property states it
Coherent(prec, inc) == prec <= 18 /\ ~IsZero(inc) /\ TrailingZeros(inc) >= prec

RECURSIVE Digits(_)
Digits(d) == IF d = <<>> THEN "" ELSE ToString(Head(d)) \o Digits(Tail(d))

Unset == [prec |-> -1, inc |-> <<>>]
Init == stored = Unset /\ last = "none"

Instantiate(prec, inc) ==
    /\ stored = Unset
    /\ last' = [scen |-> "instbig", prec |-> prec, inc |-> Digits(inc), accept |-> Coherent(prec, inc)]
    /\ stored' = IF Coherent(prec, inc) THEN [prec |-> prec, inc |-> inc] ELSE stored

Next == \E p \in 0..19, i \in Incs : Instantiate(p, i)

Emit == PrintT(ToJson(last'))

Integrality == stored # Unset => (TrailingZeros(stored.inc) >= stored.prec /\ stored.prec <= 18 /\ ~IsZero(stored.inc))
View == stored
=============================================================================
