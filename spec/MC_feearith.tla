----------------------------- MODULE MC_feearith -----------------------------
(* Scenario feearith: the two rate x amount products (bid fee at admission, ask fee on a    *)
(* match) over a WIDE range of amounts and FINE rates, one order pair at a time: price      *)
(* k/100 x size 100 gives every total k; rates 0.333, 0.0125, 0.005 and 0.00125 (five       *)
(* significant decimals).  For every k: the bid with the exact fee is admitted, the bids    *)
(* with a fee one unit above / below are refused, an ask at the same price is admitted and  *)
(* matched completely (ask fee on a gross of k), or the bid is cancelled.  Rounding slips   *)
(* that only show for amounts in the hundreds or for rates beyond four decimals live here.  *)
EXTENDS AtsMC

CONSTANT Tier

Rate(n) == Dec(n, "plain")      \* n in units of 0.000001
\* 0.003937 x 127 = 0.499999 (also x 381, x 635): any intermediate rounding of the product to five or fewer
\* decimals turns it into 0.5 and the fee into 1 instead of 0
Rates == IF Tier = "quick" THEN {Rate(333000), Rate(1250), Rate(12500), Rate(3937)}
         ELSE {Rate(333000), Rate(1250), Rate(12500), Rate(5000), Rate(333333), Rate(3937)}
Cfgs == {InstMsg("ats", "base", <<>>, <<"q1">>, <<"appr1">>, <<"exec1">>, FeeInfo("askfee1", r), FeeInfo("bidfee1", r),
                 <<>>, <<>>, 2, 100) : r \in Rates}

Envs == {[marker |-> [d \in {"base", "q1"} |-> "coin"], attrs |-> <<>>]}

Init == /\ st = EmptyState
        /\ cenv \in Envs
        /\ act = NoAct

Ks == IF Tier = "quick" THEN 1..1300 ELSE (1..2000) \cup {12000, 12001, 19999}
Price(k) == Dec(k * 100, "plain")         \* k / 100
Size == 100

BidFor(S, k, fee) == RCreateBid("buyer1", Coins1("q1", k + FeeAmt(fee)), "b1", "base", fee, Price(k), "q1", k, Size)
BidReqs(S) ==
  IF DOMAIN S.bids # {} \/ DOMAIN S.asks # {} THEN {}
  ELSE UNION {
         LET due == BidFeeFor(S.cfg, "q1", k) IN
         {BidFor(S, k, due), BidFor(S, k, SomeFee(FeeAmt(due) + 1, "q1"))}
         \cup (IF FeeAmt(due) > 0 THEN {BidFor(S, k, IF FeeAmt(due) = 1 THEN NoFee ELSE SomeFee(FeeAmt(due) - 1, "q1"))} ELSE {})
       : k \in Ks}
AskReqs(S) ==
  IF "b1" \in DOMAIN S.bids /\ DOMAIN S.asks = {}
  THEN {RCreateAsk("seller1", Coins1("base", Size), "a1", "base", "q1", S.bids["b1"].price, Size)}
  ELSE {}
OtherReqs(S) ==
       {RReverse("cancel_ask", "seller1", NoFunds, "a1", NoSize)}
  \cup (IF DOMAIN S.asks = {} THEN {RReverse("cancel_bid", "buyer1", NoFunds, "b1", NoSize)} ELSE {})
  \cup (IF "b1" \in DOMAIN S.bids /\ "a1" \in DOMAIN S.asks
        THEN {RMatch("exec1", NoFunds, "a1", "b1", S.bids["b1"].price, Size)} ELSE {})

DoInstantiate == ~st.cfg.set /\ \E m \in Cfgs : Step(RInstantiate(m))
DoCreateBid   == st.cfg.set /\ \E r \in BidReqs(st) : Step(r)
DoCreateAsk   == st.cfg.set /\ \E r \in AskReqs(st) : Step(r)
DoOther       == st.cfg.set /\ \E r \in OtherReqs(st) : Step(r)

Next == DoInstantiate \/ DoCreateBid \/ DoCreateAsk \/ DoOther
=============================================================================
